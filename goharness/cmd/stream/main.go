// Harness for C47: drives the real writers of pkg/stream (cutoff writer, line
// processor, hashed/audit/concurrent writers, preemptable writer, valve
// writer, multi closer, multi flusher, flush closer) over scripted
// short-writing / failing downstreams and random cancellation / shut points,
// and emits every case with the implementation's results as a Coq term of
// type Model.Stream.wcase.
package main

import (
	"bytes"
	"sync"
	"crypto/sha256"
	"encoding/json"
	"fmt"
	"hash"
	"io"
	"os"
	"strings"
	"time"

	"github.com/mutagen-io/mutagen/pkg/stream"

	"verifharness/internal/hx"
)

// Op is one step of a case: a write of Rep copies of byte B followed by D, or
// (Ev) the event of the writer kind: cancellation / Shut.
type Op struct {
	D   []byte `json:"d,omitempty"`
	Rep int    `json:"rep,omitempty"`
	B   byte   `json:"b,omitempty"`
	Ev  bool   `json:"ev,omitempty"`
}

// Case is the replay form.
type Case struct {
	Kind   string   `json:"kind"`             // cutoff line hash audit conc pre valve valvec mc mf fc
	N      int      `json:"n,omitempty"`      // cutoff N / preemption interval / MaximumBufferSize
	Open   bool     `json:"open,omitempty"`   // valve: created on a non-nil writer
	Ops    []Op     `json:"ops,omitempty"`    // writes and events
	Script [][2]int `json:"script,omitempty"` // downstream answers (k, error code)
	Errs   []int    `json:"errs,omitempty"`   // mc / mf / fc: error code per closer / flusher
	Acts   string   `json:"acts,omitempty"`   // valvec: w = start a Write, s = start a Shut, r = release the oldest blocked underlying Write
}

func (o Op) data() []byte {
	if o.Rep == 0 {
		return o.D
	}
	return append(bytes.Repeat([]byte{o.B}, o.Rep), o.D...)
}

func (o Op) coq() string { return bytesCoq(o.data()) }

// bytesCoq prints a byte slice as a Coq list; runs of 32 or more equal bytes
// are printed as (rp n b) so that writes near the 64 KiB cap stay small terms.
func bytesCoq(b []byte) string {
	var parts []string
	lit := 0 // start of the pending literal part
	i := 0
	for i < len(b) {
		j := i
		for j < len(b) && b[j] == b[i] {
			j++
		}
		if j-i >= 32 {
			if i > lit {
				parts = append(parts, hx.Bytes(b[lit:i]))
			}
			parts = append(parts, fmt.Sprintf("rp %d%%N %d", j-i, b[i]))
			lit = j
		}
		i = j
	}
	if lit < len(b) || len(parts) == 0 {
		parts = append(parts, hx.Bytes(b[lit:]))
	}
	if len(parts) == 1 && !strings.HasPrefix(parts[0], "rp") {
		return parts[0]
	}
	return "(" + strings.Join(parts, " ++ ") + ")"
}

// downErr is an error value of a scripted downstream / closer / flusher.
type downErr struct{ code int }

func (e *downErr) Error() string { return fmt.Sprintf("scripted error %d", e.code) }

var errTable = map[int]*downErr{}

func codeErr(c int) error {
	if c == 0 {
		return nil
	}
	if e, ok := errTable[c]; ok {
		return e
	}
	e := &downErr{c}
	errTable[c] = e
	return e
}

func errCoq(err error) string {
	switch e := err.(type) {
	case nil:
		return "ENil"
	case *downErr:
		// identity, not just type: the very value the script produced
		if errTable[e.code] == e {
			return fmt.Sprintf("(ED %d)", e.code)
		}
		return "EUnk"
	}
	switch err {
	case stream.ErrWritePreempted:
		return "EPre"
	case stream.ErrMaximumBufferSizeExceeded:
		return "EMax"
	}
	return "EUnk"
}

func codeCoq(c int) string {
	if c == 0 {
		return "ENil"
	}
	return fmt.Sprintf("(ED %d)", c)
}

type callRec struct {
	d    []byte
	c, e int
}

// down mirrors Model/Stream.v ds_write.
type down struct {
	script [][2]int
	calls  []callRec // calls since the last take()
	sink   []byte
	short  bool
}

func (w *down) Write(p []byte) (int, error) {
	m := len(p)
	c, code := m, 0
	if len(w.script) > 0 {
		c, code = min(w.script[0][0], m), w.script[0][1]
		w.script = w.script[1:]
	}
	if c < m || code != 0 {
		w.short = true
	}
	w.calls = append(w.calls, callRec{append([]byte(nil), p...), c, code})
	w.sink = append(w.sink, p[:c]...)
	return c, codeErr(code)
}

func (w *down) take() string {
	items := make([]string, len(w.calls))
	for i, c := range w.calls {
		items[i] = fmt.Sprintf("K %s %d %s", hx.Bytes(c.d), c.c, codeCoq(c.e))
	}
	w.calls = nil
	return hx.List(items)
}

func scriptCoq(s [][2]int) string {
	items := make([]string, len(s))
	for i, x := range s {
		items[i] = fmt.Sprintf("(%d, %s)", x[0], codeCoq(x[1]))
	}
	return hx.List(items)
}

func newDown(c Case) *down { return &down{script: append([][2]int(nil), c.Script...)} }

// recHash is a hash.Hash that records its input.
type recHash struct{ in []byte }

func (h *recHash) Write(p []byte) (int, error) { h.in = append(h.in, p...); return len(p), nil }
func (h *recHash) Sum(b []byte) []byte         { return append(b, h.in...) }
func (h *recHash) Reset()                      { h.in = nil }
func (h *recHash) Size() int                   { return len(h.in) }
func (h *recHash) BlockSize() int              { return 1 }

var _ hash.Hash = (*recHash)(nil)

type recCloser struct {
	i    int
	code int
	log  *[]int
}

func (c *recCloser) Close() error { *c.log = append(*c.log, c.i); return codeErr(c.code) }
func (c *recCloser) Flush() error { *c.log = append(*c.log, c.i); return codeErr(c.code) }

// gate is an underlying writer whose Write blocks until released; it records
// the events of a concurrent valve scenario in the order they happen.
type gate struct {
	mu      sync.Mutex
	events  []string
	waiting []chan struct{}
	entered chan int
}

func (g *gate) record(e string) {
	g.mu.Lock()
	g.events = append(g.events, e)
	g.mu.Unlock()
}

func (g *gate) Write(p []byte) (int, error) {
	id := int(p[0])
	rel := make(chan struct{})
	g.mu.Lock()
	g.events = append(g.events, fmt.Sprintf("Fb %d", id))
	g.waiting = append(g.waiting, rel)
	g.mu.Unlock()
	g.entered <- id
	<-rel
	g.record(fmt.Sprintf("Fe %d", id))
	return len(p), nil
}

func (g *gate) releaseOldest() bool {
	g.mu.Lock()
	defer g.mu.Unlock()
	if len(g.waiting) == 0 {
		return false
	}
	close(g.waiting[0])
	g.waiting = g.waiting[1:]
	return true
}

// runValveConcurrent plays a scenario on a real ValveWriter: writers and
// shutters are goroutines, underlying Writes block in the gate until released.
// The waits only let the goroutines settle; the verdict is taken from the
// recorded order of events (an underlying Write begins / is about to return,
// a Shut has returned), which for the real lock discipline can never show a
// Shut returning while an underlying Write is in flight.
func runValveConcurrent(acts string) (nw, ns int, events []string) {
	for _, a := range acts {
		switch a {
		case 'w':
			nw++
		case 's':
			ns++
		}
	}
	g := &gate{entered: make(chan int, len(acts)+1)}
	v := stream.NewValveWriter(g)
	var wg sync.WaitGroup
	wid, sid := 0, nw
	for _, a := range acts {
		switch a {
		case 'w':
			id := wid
			wid++
			done := make(chan struct{})
			wg.Add(1)
			go func() {
				defer wg.Done()
				v.Write([]byte{byte(id)})
				close(done)
			}()
			select {
			case <-g.entered: // inside the underlying writer (this or an earlier pending write)
			case <-done: // discarded
			case <-time.After(20 * time.Millisecond): // waiting for the lock
			}
		case 's':
			id := sid
			sid++
			done := make(chan struct{})
			wg.Add(1)
			go func() {
				defer wg.Done()
				v.Shut()
				g.record(fmt.Sprintf("Sr %d", id))
				close(done)
			}()
			select {
			case <-done:
			case <-time.After(30 * time.Millisecond): // waiting for the lock
			}
		case 'r':
			if g.releaseOldest() {
				time.Sleep(2 * time.Millisecond)
			}
		}
	}
	// let everything finish
	finished := make(chan struct{})
	go func() { wg.Wait(); close(finished) }()
	for {
		select {
		case <-finished:
			g.mu.Lock()
			events = append([]string(nil), g.events...)
			g.mu.Unlock()
			return
		case <-time.After(time.Millisecond):
			g.releaseOldest()
		}
	}
}

// writeAll runs the writes of the case through w and renders ops and results.
func writeAll(c Case, w io.Writer, d *down, event func(), evName, wName string) (ops, res []string) {
	for _, o := range c.Ops {
		if o.Ev {
			if event != nil {
				event()
			}
			ops = append(ops, evName)
			continue
		}
		data := o.data()
		n, err := w.Write(data)
		if wName == "" {
			ops = append(ops, o.coq())
		} else {
			ops = append(ops, wName+" "+o.coq())
		}
		res = append(res, fmt.Sprintf("R %d %s %s", n, errCoq(err), d.take()))
	}
	return
}

func runCase(c Case) (coq string, nontrivial bool, tags []string) {
	tags = append(tags, "kind:"+c.Kind)
	d := newDown(c)
	switch c.Kind {
	case "cutoff":
		w := stream.NewCutoffWriter(d, uint(c.N))
		ops, res := writeAll(c, w, d, nil, "", "")
		coq = fmt.Sprintf("CCutoff %d %s %s %s", c.N, hx.List(ops), scriptCoq(c.Script), hx.List(res))
		total := 0
		for _, o := range c.Ops {
			total += len(o.data())
		}
		nontrivial = total > c.N && c.N > 0
		if nontrivial {
			tags = append(tags, "cutoff:crossed")
		}
	case "line":
		var cbs []string
		p := &stream.LineProcessor{MaximumBufferSize: c.N, Callback: func(s string) {
			cbs = append(cbs, bytesCoq([]byte(s)))
		}}
		var ops, res []string
		refused := false
		for _, o := range c.Ops {
			data := o.data()
			cbs = nil
			n, err := p.Write(data)
			if err != nil {
				refused = true
			}
			ops = append(ops, o.coq())
			res = append(res, fmt.Sprintf("L %d%%N %s %s", n, errCoq(err), hx.List(cbs)))
		}
		coq = fmt.Sprintf("CLine (%d)%%Z %s (LOut %s)", c.N, hx.List(ops), hx.List(res))
		if refused {
			tags = append(tags, "line:refused")
		}
		all := []byte{}
		for _, o := range c.Ops {
			all = append(all, o.data()...)
		}
		nontrivial = bytes.IndexByte(all, '\n') >= 0 && len(c.Ops) > 1 || refused
		if bytes.Contains(all, []byte("\r\n")) {
			tags = append(tags, "line:crlf")
		}
	case "hash":
		h := &recHash{}
		w := stream.NewHashedWriter(d, h)
		ops, res := writeAll(c, w, d, nil, "", "")
		// the same run with a real digest: Sum must equal the digest of the sink
		d2 := newDown(c)
		real := sha256.New()
		w2 := stream.NewHashedWriter(d2, real)
		for _, o := range c.Ops {
			w2.Write(o.data())
		}
		want := sha256.Sum256(d2.sink)
		ok := bytes.Equal(real.Sum(nil), want[:])
		coq = fmt.Sprintf("CHash %s %s %s %s %v", hx.List(ops), scriptCoq(c.Script), hx.List(res), hx.Bytes(h.in), ok)
		nontrivial = d.short
	case "audit":
		var au []int
		w := stream.NewAuditWriter(d, func(n uint64) { au = append(au, int(n)) })
		ops, res := writeAll(c, w, d, nil, "", "")
		coq = fmt.Sprintf("CAudit %s %s %s %s", hx.List(ops), scriptCoq(c.Script), hx.List(res), hx.NatList(au))
		nontrivial = d.short
	case "conc":
		w := stream.NewConcurrentWriter(d)
		ops, res := writeAll(c, w, d, nil, "", "")
		coq = fmt.Sprintf("CConc %s %s %s", hx.List(ops), scriptCoq(c.Script), hx.List(res))
		nontrivial = d.short
	case "pre":
		ch := make(chan struct{})
		closed := false
		w := stream.NewPreemptableWriter(d, ch, uint(c.N))
		ops, res := writeAll(c, w, d, func() {
			if !closed {
				close(ch)
				closed = true
			}
		}, "PCancel", "PW")
		coq = fmt.Sprintf("CPre %d %s %s %s", c.N, hx.List(ops), scriptCoq(c.Script), hx.List(res))
		// non-trivial: cancelled with writes both before and after
		seenW, seenEv := false, false
		for _, o := range c.Ops {
			if o.Ev {
				seenEv = seenEv || seenW
			} else {
				if seenEv {
					nontrivial = true
				}
				seenW = true
			}
		}
		tags = append(tags, fmt.Sprintf("interval:%d", min(c.N, 5)))
	case "valve":
		var w *stream.ValveWriter
		if c.Open {
			w = stream.NewValveWriter(d)
		} else {
			w = stream.NewValveWriter(nil)
		}
		ops, res := writeAll(c, w, d, w.Shut, "VShut", "VW")
		coq = fmt.Sprintf("CValve %v %s %s %s", c.Open, hx.List(ops), scriptCoq(c.Script), hx.List(res))
		seenW := false
		for _, o := range c.Ops {
			if o.Ev && seenW && c.Open {
				nontrivial = true
			}
			if !o.Ev {
				seenW = true
			}
		}
	case "valvec":
		nw, ns, events := runValveConcurrent(c.Acts)
		coq = fmt.Sprintf("CValveC %d %d %s", nw, ns, hx.List(events))
		// non-trivial: a Shut was started while an underlying Write was blocked
		nontrivial = strings.Contains(c.Acts, "ws") || strings.Contains(c.Acts, "wws")
		tags = append(tags, fmt.Sprintf("valvec-len:%d", min(len(c.Acts), 8)))
	case "mc", "mf":
		var log []int
		errs := make([]string, len(c.Errs))
		var ret error
		if c.Kind == "mc" {
			cl := make([]io.Closer, len(c.Errs))
			for i, e := range c.Errs {
				cl[i] = &recCloser{i, e, &log}
				errs[i] = codeCoq(e)
			}
			ret = stream.NewMultiCloser(cl...).Close()
			coq = "CMc"
		} else {
			fl := make([]stream.Flusher, len(c.Errs))
			for i, e := range c.Errs {
				fl[i] = &recCloser{i, e, &log}
				errs[i] = codeCoq(e)
			}
			ret = stream.NewMultiFlusher(fl...).Flush()
			coq = "CMf"
		}
		coq += fmt.Sprintf(" %s %s %s", hx.List(errs), hx.NatList(log), errCoq(ret))
		nerr := 0
		for _, e := range c.Errs {
			if e != 0 {
				nerr++
			}
		}
		nontrivial = nerr >= 1 && len(c.Errs) >= 2
		tags = append(tags, fmt.Sprintf("errors:%d", min(nerr, 3)))
	case "fc":
		var log []int
		e := 0
		if len(c.Errs) > 0 {
			e = c.Errs[0]
		}
		ret := stream.NewFlushCloser(&recCloser{0, e, &log}).Close()
		coq = fmt.Sprintf("CFc %s %d %s", codeCoq(e), len(log), errCoq(ret))
		nontrivial = e != 0
	default:
		panic("unknown kind " + c.Kind)
	}
	if d.short {
		tags = append(tags, "downstream:short-or-failing")
	}
	nw := 0
	for _, o := range c.Ops {
		if !o.Ev {
			nw++
		}
	}
	tags = append(tags, fmt.Sprintf("writes:%d", min(nw, 8)))
	return
}

const header = "From Coq Require Import List Arith ZArith NArith.\nImport ListNotations.\nFrom Mv Require Import Model.Stream Harness.StreamH."

func main() {
	cfg := hx.Parse()
	w := hx.NewWriter(cfg, header, "wcase", "stream_failures", 400)
	w.Rule = "a case = (writer kind, parameters, writes and events, downstream script, implementation results with every downstream call); distinct = distinct Coq terms; non-trivial = cutoff crossed / a line completed across writes or a write refused by the cap / downstream short-wrote or failed / cancellation or Shut between writes / a Shut started while an underlying Write is blocked (concurrent valve scenarios, goroutines) / a failing closer among several"
	add := func(c Case, origin string) {
		if w.Aborted {
			return
		}
		var coq string
		var nt bool
		var tags []string
		if w.Guard(c, 5*time.Second, func() { coq, nt, tags = runCase(c) }) {
			w.Add(hx.Case{Coq: coq, Replay: c, Nontrivial: nt, Tags: tags, Origin: origin})
		}
	}

	if cfg.Replay != "" {
		b, err := os.ReadFile(cfg.Replay)
		if err != nil {
			panic(err)
		}
		var wrapper struct {
			Case Case `json:"case"`
		}
		if err := json.Unmarshal(b, &wrapper); err != nil {
			panic(err)
		}
		add(wrapper.Case, "replay")
		w.Close()
		return
	}

	for _, raw := range hx.LoadCorpus(cfg.Corpus) {
		var c Case
		if json.Unmarshal(raw, &c) == nil && c.Kind != "" {
			add(c, "corpus")
		}
	}

	// ---- exhaustive small scopes ----
	var next byte
	fresh := func(n int) []byte {
		out := make([]byte, n)
		for i := range out {
			next = next%200 + 20 // never LF / CR
			out[i] = next
		}
		return out
	}
	scripts := [][][2]int{
		nil,
		{{1, 0}},
		{{0, 1}},
		{{1, 2}, {5, 0}},
		{{9, 0}, {0, 3}},
		{{9, 4}, {1, 0}, {0, 0}},
	}
	// cutoff: N 0..4, up to 3 writes of length 0..maxw, every script
	maxw := 2
	if cfg.Thorough() {
		maxw = 3
	}
	for n := 0; n <= 4; n++ {
		for l := 1; l <= 3; l++ {
			idx := make([]int, l)
			for {
				for _, s := range scripts {
					next = 0
					ops := make([]Op, l)
					for i, k := range idx {
						ops[i] = Op{D: fresh(k)}
					}
					add(Case{Kind: "cutoff", N: n, Ops: ops, Script: s}, "exhaustive")
				}
				j := l - 1
				for j >= 0 {
					idx[j]++
					if idx[j] <= maxw {
						break
					}
					idx[j] = 0
					j--
				}
				if j < 0 {
					break
				}
			}
		}
	}
	// preemptable / valve: every sequence over {write, event}
	maxo := 6
	if cfg.Thorough() {
		maxo = 8
	}
	for l := 1; l <= maxo; l++ {
		for bits := 0; bits < 1<<l; bits++ {
			next = 0
			ops := make([]Op, l)
			for i := range ops {
				if bits>>i&1 == 1 {
					ops[i] = Op{Ev: true}
				} else {
					ops[i] = Op{D: fresh(1)}
				}
			}
			for interval := 0; interval <= 3; interval++ {
				add(Case{Kind: "pre", N: interval, Ops: ops, Script: scripts[(bits+interval)%len(scripts)]}, "exhaustive")
			}
			if l <= 5 {
				add(Case{Kind: "valve", Open: true, Ops: ops, Script: scripts[bits%len(scripts)]}, "exhaustive")
				add(Case{Kind: "valve", Open: false, Ops: ops}, "exhaustive")
			}
		}
	}
	// multi closer / multi flusher: every error list of length <= 4 over {nil, e1, e2}
	for l := 0; l <= 4; l++ {
		total := 1
		for i := 0; i < l; i++ {
			total *= 3
		}
		for v := 0; v < total; v++ {
			errs := make([]int, l)
			x := v
			for i := range errs {
				errs[i] = x % 3
				x /= 3
			}
			add(Case{Kind: "mc", Errs: errs}, "exhaustive")
			add(Case{Kind: "mf", Errs: errs}, "exhaustive")
		}
	}
	// concurrent valve: every scenario of length <= maxc over {w, s, r}
	maxc := 3
	if cfg.Thorough() {
		maxc = 5
	}
	for l := 1; l <= maxc; l++ {
		total := 1
		for i := 0; i < l; i++ {
			total *= 3
		}
		for v := 0; v < total; v++ {
			acts := make([]byte, l)
			x := v
			for i := range acts {
				acts[i] = "wsr"[x%3]
				x /= 3
			}
			add(Case{Kind: "valvec", Acts: string(acts)}, "exhaustive")
		}
	}
	add(Case{Kind: "fc", Errs: []int{0}}, "exhaustive")
	add(Case{Kind: "fc", Errs: []int{5}}, "exhaustive")
	// line processor: every string of length <= maxs over {a, LF, CR}, cut into
	// two writes at every position, unlimited and cap 3
	maxs := 4
	if cfg.Thorough() {
		maxs = 6
	}
	alpha := []byte{'a', '\n', '\r'}
	for l := 1; l <= maxs; l++ {
		total := 1
		for i := 0; i < l; i++ {
			total *= 3
		}
		for v := 0; v < total; v++ {
			s := make([]byte, l)
			x := v
			for i := range s {
				s[i] = alpha[x%3]
				x /= 3
			}
			for cut := 0; cut <= l/2+1 && cut <= l; cut++ {
				for _, max := range []int{-1, 3} {
					add(Case{Kind: "line", N: max, Ops: []Op{{D: s[:cut]}, {D: s[cut:]}, {D: []byte("\n")}}}, "exhaustive")
				}
			}
		}
	}
	w.Extra["exhaustive_scope"] = fmt.Sprintf("cutoff: N 0..4 x 1..3 writes of length 0..%d x %d downstream scripts; preemptable: all sequences of length 1..%d over {write, cancel} x interval 0..3; valve: all sequences of length 1..5 over {write, Shut}, open and nil; concurrent valve: all scenarios of length 1..%d over {start a Write, start a Shut, release a blocked underlying Write}; multi closer/flusher: all error lists of length 0..4 over {nil, e1, e2}; line processor: all strings of length 1..%d over {a, LF, CR} cut into two writes, unlimited and cap 3", maxw, len(scripts), maxo, maxc, maxs)

	// ---- seeded random ----
	r := cfg.Rand
	scale := 1
	if cfg.Thorough() {
		scale = 12
	}
	randScript := func(maxk int) [][2]int {
		s := make([][2]int, r.Intn(5))
		for i := range s {
			e := 0
			if r.Intn(3) == 0 {
				e = 1 + r.Intn(4)
			}
			s[i] = [2]int{r.Intn(maxk + 2), e}
		}
		return s
	}
	randWrites := func(maxn, maxlen int) []Op {
		ops := make([]Op, 1+r.Intn(maxn))
		for i := range ops {
			ops[i] = Op{D: fresh(r.Intn(maxlen + 1))}
		}
		return ops
	}
	lineBytes := func(n int) []byte {
		out := make([]byte, n)
		for i := range out {
			switch r.Intn(8) {
			case 0, 1:
				out[i] = '\n'
			case 2:
				out[i] = '\r'
			default:
				out[i] = byte('a' + r.Intn(4))
			}
		}
		return out
	}
	for i := 0; i < 700*scale; i++ {
		next = byte(r.Intn(100))
		add(Case{Kind: "cutoff", N: r.Intn(14), Ops: randWrites(6, 7), Script: randScript(7)}, "random")
	}
	for i := 0; i < 700*scale; i++ {
		max := []int{0, -1, -7, 1, 2, 4, 6, 9}[r.Intn(8)]
		ops := make([]Op, 1+r.Intn(6))
		for j := range ops {
			ops[j] = Op{D: lineBytes(r.Intn(8))}
		}
		add(Case{Kind: "line", N: max, Ops: ops}, "random")
	}
	// writes around the 64 KiB default cap (and an explicit large cap)
	for i := 0; i < 12*scale && i < 60; i++ {
		max := 0
		limit := 65536
		if r.Intn(3) == 0 {
			max = 20000 + r.Intn(100)
			limit = max
		}
		first := limit - 3 + r.Intn(3) - r.Intn(40)*r.Intn(2)
		ops := []Op{
			{Rep: first, B: 'x', D: lineBytes(r.Intn(3))},
			{D: lineBytes(r.Intn(5))},
			{D: []byte("\n")},
			{Rep: limit - 1 + r.Intn(3), B: 'y'},
			{D: lineBytes(r.Intn(4))},
		}
		add(Case{Kind: "line", N: max, Ops: ops}, "random")
	}
	for i := 0; i < 250*scale; i++ {
		next = byte(r.Intn(100))
		add(Case{Kind: "hash", Ops: randWrites(6, 6), Script: randScript(6)}, "random")
	}
	for i := 0; i < 150*scale; i++ {
		next = byte(r.Intn(100))
		add(Case{Kind: "audit", Ops: randWrites(6, 6), Script: randScript(6)}, "random")
	}
	for i := 0; i < 100*scale; i++ {
		next = byte(r.Intn(100))
		add(Case{Kind: "conc", Ops: randWrites(6, 6), Script: randScript(6)}, "random")
	}
	for i := 0; i < 500*scale; i++ {
		next = byte(r.Intn(100))
		n := 2 + r.Intn(14)
		ops := make([]Op, n)
		cancelAt := r.Intn(n + 3) // random cancellation point (possibly never)
		for j := range ops {
			if j == cancelAt || r.Intn(15) == 0 {
				ops[j] = Op{Ev: true}
			} else {
				ops[j] = Op{D: fresh(r.Intn(4))}
			}
		}
		add(Case{Kind: "pre", N: r.Intn(6), Ops: ops, Script: randScript(3)}, "random")
	}
	for i := 0; i < 250*scale; i++ {
		next = byte(r.Intn(100))
		n := 2 + r.Intn(10)
		ops := make([]Op, n)
		shutAt := r.Intn(n + 2)
		for j := range ops {
			if j == shutAt || r.Intn(15) == 0 {
				ops[j] = Op{Ev: true}
			} else {
				ops[j] = Op{D: fresh(r.Intn(4))}
			}
		}
		add(Case{Kind: "valve", Open: r.Intn(5) != 0, Ops: ops, Script: randScript(3)}, "random")
	}
	for i := 0; i < 30*scale && i < 200; i++ {
		acts := make([]byte, 4+r.Intn(5))
		for j := range acts {
			acts[j] = "wwsrr"[r.Intn(5)]
		}
		add(Case{Kind: "valvec", Acts: string(acts)}, "random")
	}
	for i := 0; i < 100*scale; i++ {
		errs := make([]int, r.Intn(9))
		for j := range errs {
			if r.Intn(3) == 0 {
				errs[j] = 1 + r.Intn(5)
			}
		}
		kind := "mc"
		if r.Intn(2) == 0 {
			kind = "mf"
		}
		add(Case{Kind: kind, Errs: errs}, "random")
	}
	w.Close()
	fmt.Println(strings.TrimSpace(fmt.Sprintf("cases %d", w.Total())))
}
