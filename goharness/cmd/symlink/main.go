// Harness for C16 (portable symbolic links never point outside the root).
//
// For each (link path, target) it runs the real
// core.normalizeSymbolicLinkAndEnsurePortable (through the add-only verif hook
// pkg/synchronization/core/zz_verif_symlink.go) and, for observed cases, also
//   - creates the link in a real temporary tree and asks the kernel where it
//     resolves (open(2) follows the link; /proc/self/fd/N names the result),
//   - runs core.Scan in portable mode over that tree and records the entry
//     produced for the link,
//   - runs core.Transition in portable mode asking it to create the link and
//     records whether it exists afterwards,
//   - runs core.Transition in portable mode asking it to create new
//     directories (one and two levels) that contain the link and records, for
//     the nested link's own path, whether it exists and whether a problem was
//     recorded.
//
// Every case is emitted with these observations as a Coq term for
// Harness/SymlinkH.v.
package main

import (
	"context"
	"crypto/sha1"
	"encoding/json"
	"flag"
	"fmt"
	"os"
	"path/filepath"
	"strings"
	"time"

	"github.com/mutagen-io/mutagen/pkg/filesystem"
	"github.com/mutagen-io/mutagen/pkg/filesystem/behavior"
	"github.com/mutagen-io/mutagen/pkg/synchronization/core"
	ignoremutagen "github.com/mutagen-io/mutagen/pkg/synchronization/core/ignore/mutagen"

	"verifharness/internal/bstr"
	"verifharness/internal/hx"
)

// Case is the replay form of one case.
type Case struct {
	Path    bstr.JStr `json:"path"`   // root-relative path of the link
	Target  bstr.JStr `json:"target"` // link target
	Observe bool      `json:"observe"`
	// Tokens is set for cases of the exhaustive scope: the target as letters
	// n (name "n"), d ("."), u (".."), e (empty component); Path is then
	// depth x "n/" followed by "L"+Tokens. Such cases are printed without
	// string literals (Coq reads them ten times faster).
	Tokens string `json:"tokens,omitempty"`
}

// obs is what the real code and the kernel did for one case.
type obs struct {
	out     string   // Coq term: Ok (B ..) | Er Err..
	accept  bool     // normalize accepted
	kernel  []string // names below the sandbox directory; nil = not asked/unavailable
	hasK    bool
	scan    string // "" = none, else Coq term
	created string // "" = none, else "true"/"false"
	nested  string // "" = none, else Coq term NO c1 p1 c2 p2
}

var errNames = map[string]string{
	"target empty":    "ErrEmpty",
	"target too long": "ErrTooLong",
	"colon in target (absolute or unsupported path)":          "ErrColon",
	"backslash in target":                                     "ErrBackslash",
	"target is absolute":                                      "ErrAbsolute",
	"target references location outside synchronization root": "ErrOutside",
}

var baseNames = []string{"o1", "o2", "o3", "root"}

func normalize(path, target string) (string, bool) {
	t, err := core.VerifNormalizeSymbolicLinkAndEnsurePortable(path, target)
	if err != nil {
		name, ok := errNames[err.Error()]
		if !ok {
			// an error message the model does not know: evaluation of the
			// case fails on the Coq side (reported as a tie failure)
			name = "ErrUnknownMessage"
		}
		return "(Er " + name + ")", false
	}
	if t == target {
		return "Same", true
	}
	return "(Ok " + bstr.B(t) + ")", true
}

// lexicalWalk mirrors Model/Symlink.v resolve_loc on a stack of names below
// the sandbox directory; it returns the directories visited (outermost first,
// as slash-joined paths below the sandbox) or false if the walk cannot be
// reproduced on disk (it would leave the sandbox, or a component cannot be a
// file name).
func lexicalWalk(start []string, target string) ([]string, bool) {
	stack := append([]string(nil), start...)
	var visited []string
	for _, c := range strings.Split(target, "/") {
		switch c {
		case "", ".":
		case "..":
			if len(stack) == 0 {
				return nil, false
			}
			stack = stack[:len(stack)-1]
		default:
			if len(c) > 255 || strings.ContainsRune(c, 0) {
				return nil, false
			}
			stack = append(stack, c)
		}
		if len(stack) == 0 {
			return nil, false
		}
		visited = append(visited, strings.Join(stack, "/"))
	}
	return visited, true
}

// kernelResolve opens the path (the kernel follows the link) and reads back
// the name of what was opened.
func kernelResolve(p string) (string, error) {
	f, err := os.Open(p)
	if err != nil {
		return "", err
	}
	defer f.Close()
	return os.Readlink(fmt.Sprintf("/proc/self/fd/%d", f.Fd()))
}

// tempBase chooses where the temporary trees live: $TMPDIR if set, otherwise a
// memory-backed /dev/shm when present (path resolution, symlink(2) and
// readlink(2) are VFS-level, and the ext4 journal of a shared disk makes
// symlinkat/unlinkat cost 0.3 ms each under load), otherwise the default.
func tempBase() string {
	if os.Getenv("TMPDIR") != "" {
		return ""
	}
	if st, err := os.Stat("/dev/shm"); err == nil && st.IsDir() {
		if d, err := os.MkdirTemp("/dev/shm", "verif-probe-"); err == nil {
			os.Remove(d)
			return "/dev/shm"
		}
	}
	return ""
}

// observeBatch performs the on-disk observations for a batch of cases with
// pairwise distinct link paths.
func observeBatch(cases []Case, res []obs) {
	sandbox, err := os.MkdirTemp(tempBase(), "verif-")
	if err != nil {
		panic(err)
	}
	defer os.RemoveAll(sandbox)
	if s, err := filepath.EvalSymlinks(sandbox); err == nil {
		sandbox = s
	}
	root := filepath.Join(append([]string{sandbox}, baseNames...)...)
	if err := os.MkdirAll(root, 0o755); err != nil {
		panic(err)
	}

	// 1. create the links, ask the kernel
	onDisk := make([]bool, len(cases))
	for i, c := range cases {
		path, target := c.Path.Get(), c.Target.Get()
		comps := strings.Split(path, "/")
		dirs := comps[:len(comps)-1]
		linkDir := filepath.Join(append([]string{root}, dirs...)...)
		if err := os.MkdirAll(linkDir, 0o755); err != nil {
			continue
		}
		if target == "" || strings.ContainsRune(target, 0) || len(target) > 4000 {
			continue
		}
		linkPath := filepath.Join(linkDir, comps[len(comps)-1])
		if err := os.Symlink(target, linkPath); err != nil {
			continue
		}
		onDisk[i] = true
		if target[0] == '/' {
			continue
		}
		start := append(append([]string(nil), baseNames...), dirs...)
		visited, ok := lexicalWalk(start, target)
		if !ok {
			continue
		}
		mk := true
		for _, v := range visited {
			if err := os.MkdirAll(filepath.Join(sandbox, v), 0o755); err != nil {
				mk = false
				break
			}
		}
		if !mk {
			continue
		}
		where, err := kernelResolve(linkPath)
		if err != nil {
			continue
		}
		rel, err := filepath.Rel(sandbox, where)
		if err != nil || rel == "." || strings.HasPrefix(rel, "..") {
			continue
		}
		res[i].kernel = strings.Split(rel, "/")
		res[i].hasK = true
	}

	// 2. scan the tree in portable mode
	ignorer, err := ignoremutagen.NewIgnorer(nil)
	if err != nil {
		panic(err)
	}
	snapshot, _, _, err := core.Scan(context.Background(), root, nil, nil, sha1.New(), nil,
		ignorer, nil, behavior.ProbeMode_ProbeModeProbe,
		core.SymbolicLinkMode_SymbolicLinkModePortable, core.PermissionsMode_PermissionsModePortable)
	if err == nil && snapshot != nil {
		for i, c := range cases {
			if !onDisk[i] {
				continue
			}
			e := snapshot.Content
			for _, comp := range strings.Split(c.Path.Get(), "/") {
				if e == nil {
					break
				}
				e = e.Contents[comp]
			}
			if e == nil {
				continue
			}
			switch e.Kind {
			case core.EntryKind_SymbolicLink:
				if e.Target == c.Target.Get() {
					res[i].scan = "SLs"
				} else {
					res[i].scan = "(SLt " + bstr.B(e.Target) + ")"
				}
			case core.EntryKind_Problematic:
				res[i].scan = "PB"
			default:
				res[i].scan = "UnexpectedKind" + e.Kind.String()
			}
		}
	}

	// 3. remove the links, then ask Transition to create them
	for i, c := range cases {
		if onDisk[i] {
			os.Remove(filepath.Join(root, c.Path.Get()))
		}
	}
	var changes []*core.Change
	var idx []int
	for i, c := range cases {
		path, target := c.Path.Get(), c.Target.Get()
		if strings.ContainsRune(target, 0) || len(target) > 4000 {
			continue
		}
		if _, err := os.Lstat(filepath.Join(root, path)); err == nil {
			continue
		}
		changes = append(changes, &core.Change{Path: path, New: &core.Entry{Kind: core.EntryKind_SymbolicLink, Target: target}})
		idx = append(idx, i)
	}
	if len(changes) > 0 {
		ownership, err := filesystem.NewOwnershipSpecification("", "")
		if err != nil {
			panic(err)
		}
		core.Transition(context.Background(), root, changes, &core.Cache{},
			core.SymbolicLinkMode_SymbolicLinkModePortable, 0o600, 0o700, ownership, false, nil)
		for k, i := range idx {
			p := filepath.Join(root, changes[k].Path)
			if t, err := os.Readlink(p); err == nil && t == changes[k].New.Target {
				res[i].created = "true"
			} else if _, err := os.Lstat(p); err != nil {
				res[i].created = "false"
			}
		}

		// 4. ask Transition to create NEW DIRECTORIES that hold the link, one
		// level (D<leaf>/k) and two levels (E<leaf>/s/k) deep: links that arrive
		// inside a created directory are subject to the same rule, at their own
		// depth.
		var nested []*core.Change
		for _, i := range idx {
			path, target := cases[i].Path.Get(), cases[i].Target.Get()
			dir, leaf := "", path
			if j := strings.LastIndexByte(path, '/'); j >= 0 {
				dir, leaf = path[:j+1], path[j+1:]
			}
			link := func() *core.Entry {
				return &core.Entry{Kind: core.EntryKind_SymbolicLink, Target: target}
			}
			nested = append(nested,
				&core.Change{Path: dir + "D" + leaf, New: &core.Entry{Kind: core.EntryKind_Directory,
					Contents: map[string]*core.Entry{"k": link()}}},
				&core.Change{Path: dir + "E" + leaf, New: &core.Entry{Kind: core.EntryKind_Directory,
					Contents: map[string]*core.Entry{"s": {Kind: core.EntryKind_Directory,
						Contents: map[string]*core.Entry{"k": link()}}}}})
		}
		_, problems, _ := core.Transition(context.Background(), root, nested, &core.Cache{},
			core.SymbolicLinkMode_SymbolicLinkModePortable, 0o600, 0o700, ownership, false, nil)
		problemAt := map[string]bool{}
		for _, pr := range problems {
			problemAt[pr.Path] = true
		}
		for k, i := range idx {
			target := cases[i].Target.Get()
			l1 := nested[2*k].Path + "/k"
			l2 := nested[2*k+1].Path + "/s/k"
			exists := func(rel string) (bool, bool) {
				p := filepath.Join(root, rel)
				if t, err := os.Readlink(p); err == nil && t == target {
					return true, true
				} else if _, err := os.Lstat(p); err != nil {
					return false, true
				}
				return false, false // something else is there: no observation
			}
			c1, ok1 := exists(l1)
			c2, ok2 := exists(l2)
			// the directories themselves must have been created, otherwise the
			// nested links were never attempted
			_, e1 := os.Lstat(filepath.Join(root, nested[2*k].Path))
			_, e2 := os.Lstat(filepath.Join(root, nested[2*k+1].Path, "s"))
			if ok1 && ok2 && e1 == nil && e2 == nil {
				res[i].nested = fmt.Sprintf("(NO %v %v %v %v)", c1, problemAt[l1], c2, problemAt[l2])
			}
		}
	}
}

func render(c Case, o obs) hx.Case {
	path, target := c.Path.Get(), c.Target.Get()
	kernel := "NK"
	if o.hasK {
		common := 0
		for common < len(baseNames) && common < len(o.kernel) && o.kernel[common] == baseNames[common] {
			common++
		}
		if common == len(o.kernel) {
			kernel = fmt.Sprintf("(KL %d [])", len(baseNames)-common)
		} else {
			kernel = fmt.Sprintf("(KP %d %s)", len(baseNames)-common, bstr.B(strings.Join(o.kernel[common:], "/")))
		}
	}
	scan := "NoScan"
	if o.scan != "" {
		scan = o.scan
	}
	created := "None"
	if o.created != "" {
		created = "(Some " + o.created + ")"
	}
	nested := "NN"
	if o.nested != "" {
		nested = o.nested
	}
	coq := fmt.Sprintf("C %s %s %s %s %s %s %s", bstr.B(path), bstr.B(target), o.out, kernel, scan, created, nested)
	if c.Tokens != "" && exhaustiveShape(c) {
		tk := "tz"
		for i := len(c.Tokens) - 1; i >= 0; i-- {
			tk = "(t" + string(c.Tokens[i]) + " " + tk + ")"
		}
		if o.hasK {
			common := 0
			for common < len(baseNames) && common < len(o.kernel) && o.kernel[common] == baseNames[common] {
				common++
			}
			allN := true
			for _, x := range o.kernel[common:] {
				allN = allN && x == "n"
			}
			if allN {
				kernel = fmt.Sprintf("(KN %d %d)", len(baseNames)-common, len(o.kernel)-common)
			}
		}
		coq = fmt.Sprintf("X %d %s %s %s %s %s %s", strings.Count(path, "/"), tk, o.out, kernel, scan, created, nested)
	}
	depth := strings.Count(path, "/")
	comps := strings.Split(target, "/")
	tags := []string{fmt.Sprintf("depth:%d", min(depth, 9)), "tokens:" + bucket(len(comps))}
	hasEmpty, hasDotDot := false, false
	for i, x := range comps {
		if x == "" && !(i == 0 && len(comps) == 1) {
			hasEmpty = true
		}
		if x == ".." {
			hasDotDot = true
		}
	}
	if hasEmpty {
		tags = append(tags, "has-empty-component")
	}
	if hasDotDot {
		tags = append(tags, "has-dotdot")
	}
	if o.accept {
		tags = append(tags, "out:accepted")
	} else {
		tags = append(tags, "out:"+strings.Trim(strings.TrimPrefix(o.out, "(Er "), ")"))
	}
	if o.hasK {
		tags = append(tags, "kernel-asked")
	}
	if o.scan != "" {
		tags = append(tags, "scan-observed")
	}
	if o.created != "" {
		tags = append(tags, "transition-observed")
	}
	if o.nested != "" {
		tags = append(tags, "nested-directory-transition-observed")
	}
	return hx.Case{Coq: coq, Replay: c, Nontrivial: hasDotDot || !o.accept, Tags: tags}
}

// exhaustiveShape checks that a case carrying Tokens really has the path and
// target that the Coq constructor X rebuilds from them.
func exhaustiveShape(c Case) bool {
	parts := make([]string, len(c.Tokens))
	for i := 0; i < len(c.Tokens); i++ {
		switch c.Tokens[i] {
		case 'n':
			parts[i] = "n"
		case 'd':
			parts[i] = "."
		case 'u':
			parts[i] = ".."
		case 'e':
			parts[i] = ""
		default:
			return false
		}
	}
	path := c.Path.Get()
	depth := strings.Count(path, "/")
	return c.Target.Get() == strings.Join(parts, "/") && path == strings.Repeat("n/", depth)+"L"+c.Tokens
}

func bucket(n int) string {
	switch {
	case n <= 7:
		return fmt.Sprintf("%d", n)
	case n <= 20:
		return "8-20"
	case n <= 60:
		return "21-60"
	default:
		return ">60"
	}
}

func main() {
	fixed := flag.Bool("fixed", false, "compare bit 1 against the repaired model (fixed = true)")
	cfg := hx.Parse()
	if os.Getenv("VERIF_FIXED") == "1" {
		*fixed = true
	}
	failFn := "symlink_failures"
	if *fixed {
		failFn = "symlink_failures_fixed"
	}
	header := "From Coq Require Import List String.\nFrom Coq.Strings Require Import Byte.\nImport ListNotations.\nOpen Scope string_scope.\nFrom Mv Require Import Common.Bytes Common.Str Model.Symlink Harness.SymlinkH."
	w := hx.NewWriter(cfg, header, "scase", failFn, 1500)
	w.Rule = "a case = (link path, target, result of the real normalizeSymbolicLinkAndEnsurePortable, kernel resolution of the link created on disk, entry produced by core.Scan in portable mode, whether core.Transition in portable mode created the link, and whether it created the link / recorded a problem when the link arrives inside a new directory one and two levels deep); distinct = distinct Coq terms; non-trivial = the target contains a '..' component or is rejected"
	w.Extra["model_variant"] = map[bool]string{false: "unfixed (code as in the repository)", true: "fixed (proposed repair)"}[*fixed]

	var pending []Case
	var origins []string
	flush := func() {
		if len(pending) == 0 || w.Aborted {
			pending, origins = nil, nil
			return
		}
		res := make([]obs, len(pending))
		ok := w.Guard(pending[0], 60*time.Second, func() {
			for i, c := range pending {
				res[i].out, res[i].accept = normalize(c.Path.Get(), c.Target.Get())
			}
			var oc []Case
			var oi []int
			for i, c := range pending {
				if c.Observe {
					oc = append(oc, c)
					oi = append(oi, i)
				}
			}
			if len(oc) > 0 {
				ores := make([]obs, len(oc))
				observeBatch(oc, ores)
				for k, i := range oi {
					ores[k].out, ores[k].accept = res[i].out, res[i].accept
					res[i] = ores[k]
				}
			}
		})
		if ok {
			for i, c := range pending {
				hc := render(c, res[i])
				hc.Origin = origins[i]
				w.Add(hc)
			}
		}
		pending, origins = nil, nil
	}
	add := func(c Case, origin string) {
		pending = append(pending, c)
		origins = append(origins, origin)
		if len(pending) >= 400 {
			flush()
		}
	}

	if cfg.Replay != "" {
		b, err := os.ReadFile(cfg.Replay)
		if err != nil {
			panic(err)
		}
		var wrapper struct {
			Case Case `json:"case"`
		}
		if err := json.Unmarshal(b, &wrapper); err != nil {
			panic(err)
		}
		add(wrapper.Case, "replay")
		flush()
		w.Close()
		return
	}

	for _, raw := range hx.LoadCorpus(cfg.Corpus) {
		var c Case
		if json.Unmarshal(raw, &c) == nil && c.Path.Get() != "" {
			add(c, "corpus")
		}
	}
	flush()

	// Exhaustive: every target that is 1..maxTok tokens from {n, ., .., ""}
	// joined by "/", for a link at depth 0..3. The set is closed under taking
	// '/'-prefixes, so every point of every walk is itself a case.
	// In the quick tier the longest targets are checked against the hook only
	// (no on-disk observation); the thorough tier observes everything.
	maxTok, maxObserved := 6, 6
	if cfg.Thorough() {
		maxTok, maxObserved = 7, 7
	}
	tokens := []string{"n", ".", "..", ""}
	letters := "ndue"
	var exhaustive []Case
	serial := 0
	for depth := 0; depth <= 3; depth++ {
		dirs := strings.Repeat("n/", depth)
		for l := 1; l <= maxTok; l++ {
			idx := make([]int, l)
			for {
				parts := make([]string, l)
				name := make([]byte, l)
				for i, a := range idx {
					parts[i] = tokens[a]
					name[i] = letters[a]
				}
				serial++
				exhaustive = append(exhaustive, Case{Path: bstr.J(dirs + "L" + string(name)), Target: bstr.J(strings.Join(parts, "/")), Observe: l <= maxObserved, Tokens: string(name)})
				j := l - 1
				for j >= 0 {
					idx[j]++
					if idx[j] < len(tokens) {
						break
					}
					idx[j] = 0
					j--
				}
				if j < 0 {
					break
				}
			}
		}
	}
	flush()
	w.Extra["exhaustive_scope"] = fmt.Sprintf("all targets of 1..%d tokens from {n, ., .., empty} joined by '/', link depth 0..3 (%d cases); those of up to %d tokens are also created on disk, resolved by the kernel, scanned and re-created by Transition", maxTok, serial, maxObserved)

	// Rejection classes and boundaries.
	r := cfg.Rand
	nameAlphabet := "abcdefghijkmnopqrstuvwxyz0123456789._-~ "
	randName := func() string {
		switch r.Intn(12) {
		case 0:
			return "..."
		case 1:
			return ".a"
		case 2:
			return "a."
		case 3:
			return "..a"
		case 4:
			return string([]byte{0xc3, 0xa9}) // valid UTF-8
		case 5:
			return string([]byte{0xff, 0x80}) // invalid UTF-8
		}
		n := 1 + r.Intn(6)
		if r.Intn(10) == 0 {
			n = 20 + r.Intn(60)
		}
		b := make([]byte, n)
		for i := range b {
			b[i] = nameAlphabet[r.Intn(len(nameAlphabet))]
		}
		s := string(b)
		if s == "." || s == ".." {
			s = "x" + s
		}
		return s
	}
	randPath := func() string {
		d := r.Intn(5)
		serial++
		var sb strings.Builder
		for i := 0; i < d; i++ {
			sb.WriteString(randName())
			sb.WriteByte('/')
		}
		fmt.Fprintf(&sb, "L%d", serial)
		return sb.String()
	}
	randTarget := func(nTok int) string {
		parts := make([]string, nTok)
		for i := range parts {
			switch r.Intn(8) {
			case 0, 1:
				parts[i] = ".."
			case 2:
				parts[i] = "."
			case 3:
				parts[i] = ""
			default:
				parts[i] = randName()
			}
		}
		return strings.Join(parts, "/")
	}
	nClass := 240
	nRandom := 1000
	if cfg.Thorough() {
		nClass, nRandom = 3000, 30000
	}
	// Cases with literals cost Coq about 0.1 ms per byte to read, literal-free
	// exhaustive cases almost nothing; the two kinds are interleaved so that
	// the shards (evaluated in parallel) are balanced.
	type oc struct {
		c      Case
		origin string
	}
	var others []oc
	add0 := add
	add = func(c Case, origin string) { others = append(others, oc{c, origin}) }
	add(Case{Path: bstr.J(randPath()), Target: bstr.J(""), Observe: true}, "malformed")
	for i := 0; i < nClass; i++ {
		t := randTarget(1 + r.Intn(8))
		switch i % 6 {
		case 0: // colon somewhere
			p := r.Intn(len(t) + 1)
			t = t[:p] + ":" + t[p:]
		case 1: // backslash somewhere
			p := r.Intn(len(t) + 1)
			t = t[:p] + "\\" + t[p:]
		case 2: // absolute
			t = "/" + t
		case 3: // length boundary 245..250 made of name bytes
			n := 245 + r.Intn(6)
			for len(t) < n {
				t += "/" + randName()
			}
			t = t[:n]
		case 4: // length boundary with a single long run of a/ pairs
			n := 246 + r.Intn(4)
			t = strings.Repeat("a/", n)[:n]
		case 5: // far too long
			t = strings.Repeat("ab/", 100+r.Intn(200))
		}
		add(Case{Path: bstr.J(randPath()), Target: bstr.J(t), Observe: i%2 == 0}, "malformed")
	}
	// Random long targets.
	for i := 0; i < nRandom; i++ {
		n := 1 + r.Intn(12)
		if r.Intn(4) == 0 {
			n = 12 + r.Intn(110)
		}
		add(Case{Path: bstr.J(randPath()), Target: bstr.J(randTarget(n)), Observe: n <= 12 || i%8 == 0}, "random")
	}
	add = add0
	stride := 1
	if len(others) > 0 {
		stride = max(1, len(exhaustive)/len(others))
	}
	k := 0
	for i, c := range exhaustive {
		add(c, "exhaustive")
		if (i+1)%stride == 0 && k < len(others) {
			add(others[k].c, others[k].origin)
			k++
		}
	}
	for ; k < len(others); k++ {
		add(others[k].c, others[k].origin)
	}
	flush()
	w.Close()
	fmt.Printf("cases %d\n", w.Total())
}
