// Harness for C30: drives the real state.Tracker and state.TrackingLock with
// concurrent scenarios (goroutines issuing NotifyOfChange, Lock/Unlock,
// Lock/UnlockWithoutNotify, WaitForChange with current / stale / zero previous
// indices, context cancellations and Terminate), records the externally
// visible events (call and return with arguments and results, cancellation,
// final quiescence) ordered by a global atomic sequence counter, and emits each
// history as a Coq term; the monitor of Model/Tracker.v decides.
package main

import (
	"context"
	"encoding/json"
	"fmt"
	"os"
	"runtime"
	"sort"
	"strings"
	"sync"
	"sync/atomic"
	"time"

	"github.com/mutagen-io/mutagen/pkg/state"

	"verifharness/internal/hx"
)

// Step is one API call of a scenario thread.
type Step struct {
	K      string `json:"k"`              // N notify, U lock+unlock, V lock+unlockWithoutNotify, T terminate, W wait
	Prev   string `json:"prev,omitempty"` // W: last | zero | old | odd | init
	Delay  int    `json:"d,omitempty"`    // microseconds to wait before the call
	Cancel int    `json:"c"`              // W: -1 never; 0 context cancelled before the call; >0 microseconds after the call
}

// Case is a scenario: the starting index and one script per goroutine.
type Case struct {
	Init    uint64   `json:"init"`
	Threads [][]Step `json:"threads"`
	SlackUs int64    `json:"slack_us"`
	Settle  int      `json:"settle_ms"`
}

type event struct {
	seq uint64
	s   string
}

type recorder struct {
	seq   atomic.Uint64
	start time.Time
	mu    sync.Mutex
	evs   []event
	stop  atomic.Bool
}

func (r *recorder) log(format string, args ...any) {
	us := time.Since(r.start).Microseconds()
	s := r.seq.Add(1)
	text := fmt.Sprintf(format, args...) + fmt.Sprintf(" %d", us)
	r.mu.Lock()
	r.evs = append(r.evs, event{s, text})
	r.mu.Unlock()
}

func pause(us int) {
	if us <= 0 {
		return
	}
	if us < 50 {
		for i := 0; i < us; i++ {
			runtime.Gosched()
		}
		return
	}
	time.Sleep(time.Duration(us) * time.Microsecond)
}

type result struct {
	coq      string
	tags     []string
	nontriv  bool
	quiesced bool
}

const (
	stRunning int32 = iota
	stWaiting
	stDone
)

// runCase executes one scenario against the real code.
func runCase(c Case) result {
	tracker := state.VerifNewTrackerAt(c.Init)
	lock := state.NewTrackingLock(tracker)
	rec := &recorder{start: time.Now()}
	n := len(c.Threads)
	states := make([]atomic.Int32, n)
	prevs := make([]atomic.Uint64, n)
	var pendingCancels atomic.Int32
	var cancelsMu sync.Mutex
	var cancels []context.CancelFunc
	var wg sync.WaitGroup
	var tagsMu sync.Mutex
	tagset := map[string]bool{}
	tag := func(s string) {
		tagsMu.Lock()
		tagset[s] = true
		tagsMu.Unlock()
	}
	var blockedWaits, cancelledWaits, overlapping atomic.Int32
	var panicked atomic.Value // a panic of the code under test inside a scenario goroutine

	for ti := range c.Threads {
		wg.Add(1)
		go func(ti int, script []Step) {
			defer wg.Done()
			defer states[ti].Store(stDone)
			defer func() {
				if r := recover(); r != nil {
					panicked.CompareAndSwap(nil, fmt.Sprintf("%v", r))
				}
			}()
			var last uint64
			for _, st := range script {
				if rec.stop.Load() {
					return
				}
				pause(st.Delay)
				if rec.stop.Load() {
					return
				}
				switch st.K {
				case "N":
					rec.log("C %d Nf", ti)
					tracker.NotifyOfChange()
					rec.log("R %d U", ti)
				case "U":
					rec.log("C %d Ul", ti)
					lock.Lock()
					lock.Unlock()
					rec.log("R %d U", ti)
				case "V":
					rec.log("C %d Un", ti)
					lock.Lock()
					lock.UnlockWithoutNotify()
					rec.log("R %d U", ti)
				case "T":
					rec.log("C %d Tm", ti)
					tracker.Terminate()
					rec.log("R %d U", ti)
				case "W":
					var prev uint64
					switch st.Prev {
					case "last":
						prev = last
					case "zero":
						prev = 0
					case "old":
						prev = last
						if prev > 1 {
							prev--
						}
					case "odd":
						prev = 777
					case "init":
						prev = c.Init
					}
					ctx, cancel := context.WithCancel(context.Background())
					cancelsMu.Lock()
					cancels = append(cancels, cancel)
					cancelsMu.Unlock()
					var wmu sync.Mutex
					returned := false
					rec.log("C %d (Wt %d)", ti, prev)
					prevs[ti].Store(prev)
					states[ti].Store(stWaiting)
					if st.Cancel == 0 {
						rec.log("X %d", ti)
						cancel()
					} else if st.Cancel > 0 {
						pendingCancels.Add(1)
						go func(us int) {
							defer pendingCancels.Add(-1)
							pause(us)
							wmu.Lock()
							fire := !returned && !rec.stop.Load()
							if fire {
								rec.log("X %d", ti)
							}
							wmu.Unlock()
							if fire {
								cancel()
							}
						}(st.Cancel)
					}
					began := time.Now()
					idx, err := tracker.WaitForChange(ctx, prev)
					wmu.Lock()
					returned = true
					if !rec.stop.Load() {
						switch err {
						case nil:
							rec.log("R %d (Wo %d)", ti, idx)
						case state.ErrTrackingTerminated:
							rec.log("R %d (Wx %d)", ti, idx)
							tag("wait:terminated")
						case context.Canceled:
							rec.log("R %d (Wc %d)", ti, idx)
							tag("wait:cancelled")
							cancelledWaits.Add(1)
						default:
							wmu.Unlock()
							panic(fmt.Sprintf("unexpected error from WaitForChange: %v", err))
						}
						if time.Since(began) > 200*time.Microsecond && err == nil && prev != 0 {
							overlapping.Add(1) // a wait that really parked and was woken
						}
					}
					wmu.Unlock()
					states[ti].Store(stRunning)
					last = idx
				default:
					panic("unknown step " + st.K)
				}
			}
		}(ti, c.Threads[ti])
	}

	// Wait until every goroutine is done, or until nothing can move any more:
	// every unfinished goroutine is inside WaitForChange, no cancellation is
	// pending and no event has been logged for the settle time.
	settle := time.Duration(c.Settle) * time.Millisecond
	lastSeq := rec.seq.Load()
	lastChange := time.Now()
	confirmUntil := time.Time{}
	for {
		time.Sleep(2 * time.Millisecond)
		allDone, allParked := true, true
		for i := range states {
			switch states[i].Load() {
			case stRunning:
				allDone, allParked = false, false
			case stWaiting:
				allDone = false
			}
		}
		if allDone {
			break
		}
		cur := rec.seq.Load()
		if cur != lastSeq {
			lastSeq, lastChange = cur, time.Now()
			confirmUntil = time.Time{}
			continue
		}
		if !allParked || pendingCancels.Load() != 0 || time.Since(lastChange) < settle {
			continue
		}
		// Candidate quiescence. If the tracker's own state says that a parked
		// waiter should have been answered (terminated, or its previous index
		// differs from the index), give a slow scheduler much more time before
		// recording that the update was missed.
		probeCtx, probeCancel := context.WithCancel(context.Background())
		curIdx, perr := tracker.WaitForChange(probeCtx, 0)
		probeCancel()
		suspicious := perr != nil
		for i := range states {
			if states[i].Load() == stWaiting && prevs[i].Load() != curIdx {
				suspicious = true
			}
		}
		if !suspicious {
			break
		}
		if confirmUntil.IsZero() {
			confirmUntil = time.Now().Add(2500 * time.Millisecond)
		}
		if time.Now().After(confirmUntil) {
			break
		}
	}
	rec.log("Q")
	qSeq := rec.seq.Load()
	for i := range states {
		if states[i].Load() == stWaiting {
			blockedWaits.Add(1)
		}
	}
	rec.stop.Store(true)

	// Clean up (not part of the history).
	cancelsMu.Lock()
	for _, cancel := range cancels {
		cancel()
	}
	cancelsMu.Unlock()
	termDone := make(chan struct{})
	go func() { tracker.Terminate(); close(termDone) }()
	allExited := make(chan struct{})
	go func() { wg.Wait(); close(allExited) }()
	select {
	case <-allExited:
	case <-time.After(3 * time.Second):
		panic("scenario goroutines did not exit after cancellation and Terminate")
	}
	select {
	case <-termDone:
	case <-time.After(3 * time.Second):
		panic("Terminate did not return during clean-up")
	}

	if p := panicked.Load(); p != nil {
		panic(p)
	}
	rec.mu.Lock()
	evs := append([]event(nil), rec.evs...)
	rec.mu.Unlock()
	sort.Slice(evs, func(i, j int) bool { return evs[i].seq < evs[j].seq })
	items := make([]string, 0, len(evs))
	for _, e := range evs {
		if e.seq > qSeq {
			continue
		}
		items = append(items, e.s)
	}
	var tags []string
	for _, th := range c.Threads {
		for _, st := range th {
			t := "op:" + st.K
			if st.K == "W" {
				t += ":" + st.Prev
				if st.Cancel >= 0 {
					tags = append(tags, "wait:with-cancel")
				}
			}
			tags = append(tags, t)
		}
	}
	for k := range tagset {
		tags = append(tags, k)
	}
	tags = append(tags, fmt.Sprintf("threads:%d", n))
	if c.Init != 1 {
		tags = append(tags, "init:near-wrap")
	}
	if blockedWaits.Load() > 0 {
		tags = append(tags, "end:waiter-parked")
	}
	if overlapping.Load() > 0 {
		tags = append(tags, "wait:parked-then-woken")
	}
	sort.Strings(tags)
	coq := fmt.Sprintf("(%d%%N, Some %d%%N, %s)", c.Init, c.SlackUs, hx.List(items))
	return result{coq: coq, tags: tags, nontriv: n > 1 && (overlapping.Load() > 0 || blockedWaits.Load() > 0 || cancelledWaits.Load() > 0)}
}

const header = "From Coq Require Import List Arith NArith.\nImport ListNotations.\nFrom Mv Require Import Model.Tracker Harness.TrackerH."

func main() {
	cfg := hx.Parse()
	w := hx.NewWriter(cfg, header, "tcase", "tracker_failures", 250)
	w.Rule = "a case = one concurrent scenario run against the real Tracker/TrackingLock, recorded as a history of call/return/cancel/quiescence events (global atomic sequence order, microsecond timestamps); distinct = distinct histories; non-trivial = at least two goroutines and a wait that really parked and was woken, or was cancelled, or is still parked at quiescence"
	settle := 300
	slack := int64(1000000)

	// run a batch of scenarios concurrently (they mostly sleep), add in order
	runBatch := func(cases []Case, origin string) {
		const par = 48
		for lo := 0; lo < len(cases) && !w.Aborted; lo += par {
			hi := min(lo+par, len(cases))
			res := make([]result, hi-lo)
			kinds := make([]string, hi-lo)
			details := make([]string, hi-lo)
			var wg sync.WaitGroup
			for i := lo; i < hi; i++ {
				wg.Add(1)
				go func(i int) {
					defer wg.Done()
					kinds[i-lo], details[i-lo] = hx.RunGuarded(12*time.Second, func() { res[i-lo] = runCase(cases[i]) })
				}(i)
			}
			wg.Wait()
			for i := lo; i < hi; i++ {
				if kinds[i-lo] != "" {
					w.RecordCrash(kinds[i-lo], details[i-lo], cases[i])
					continue
				}
				r := res[i-lo]
				w.Add(hx.Case{Coq: r.coq, Replay: cases[i], Nontrivial: r.nontriv, Tags: r.tags, Origin: origin})
			}
		}
	}
	fix := func(c Case) Case {
		if c.SlackUs == 0 {
			c.SlackUs = slack
		}
		if c.Settle == 0 {
			c.Settle = settle
		}
		if c.Init == 0 {
			c.Init = 1
		}
		return c
	}

	if cfg.Replay != "" {
		b, err := os.ReadFile(cfg.Replay)
		if err != nil {
			panic(err)
		}
		var wrapper struct {
			Case Case `json:"case"`
		}
		if err := json.Unmarshal(b, &wrapper); err != nil {
			panic(err)
		}
		// the interleaving is not reproducible: run the scenario several times
		var cs []Case
		for i := 0; i < 20; i++ {
			cs = append(cs, fix(wrapper.Case))
		}
		runBatch(cs, "replay")
		w.Close()
		return
	}

	var corpus []Case
	for _, raw := range hx.LoadCorpus(cfg.Corpus) {
		var c Case
		if json.Unmarshal(raw, &c) == nil && len(c.Threads) > 0 {
			corpus = append(corpus, fix(c))
		}
	}
	runBatch(corpus, "corpus")

	// Directed scenarios: the interleaving of TestTracker and friends.
	directed := []Case{
		{Threads: [][]Step{{{K: "W", Prev: "init", Cancel: -1}, {K: "W", Prev: "last", Cancel: 3000}, {K: "W", Prev: "last", Cancel: -1}},
			{{K: "N", Delay: 1000, Cancel: -1}, {K: "T", Delay: 8000, Cancel: -1}}}},
		{Threads: [][]Step{{{K: "W", Prev: "init", Cancel: -1}}, {{K: "U", Delay: 2000, Cancel: -1}}}},
		{Threads: [][]Step{{{K: "W", Prev: "init", Cancel: -1}}, {{K: "V", Delay: 2000, Cancel: -1}}}},
		{Threads: [][]Step{{{K: "W", Prev: "init", Cancel: -1}}, {{K: "W", Prev: "init", Cancel: -1}}, {{K: "W", Prev: "init", Cancel: -1}}, {{K: "N", Delay: 3000, Cancel: -1}}}},
		{Threads: [][]Step{{{K: "W", Prev: "init", Cancel: -1}}, {{K: "T", Delay: 2000, Cancel: -1}, {K: "N", Cancel: -1}, {K: "W", Prev: "zero", Cancel: -1}, {K: "W", Prev: "init", Cancel: -1}}}},
		{Init: ^uint64(0), Threads: [][]Step{{{K: "W", Prev: "init", Cancel: -1}, {K: "W", Prev: "last", Cancel: -1}}, {{K: "N", Delay: 2000, Cancel: -1}, {K: "U", Delay: 2000, Cancel: -1}}}},
		{Init: ^uint64(0) - 1, Threads: [][]Step{{{K: "N", Cancel: -1}, {K: "N", Cancel: -1}, {K: "N", Cancel: -1}, {K: "W", Prev: "zero", Cancel: -1}, {K: "W", Prev: "last", Cancel: 500}}}},
	}
	for i := range directed {
		directed[i] = fix(directed[i])
	}
	runBatch(directed, "corpus")

	// Exhaustive small scope: every single-goroutine sequence up to length 3
	// over an alphabet of non-blocking calls (sequential semantics).
	alphabet := []Step{
		{K: "N", Cancel: -1}, {K: "U", Cancel: -1}, {K: "V", Cancel: -1}, {K: "T", Cancel: -1},
		{K: "W", Prev: "zero", Cancel: -1}, {K: "W", Prev: "old", Cancel: 300}, {K: "W", Prev: "last", Cancel: 0},
	}
	maxLen := 3
	var exh []Case
	for l := 1; l <= maxLen; l++ {
		idx := make([]int, l)
		for {
			script := []Step{{K: "W", Prev: "zero", Cancel: -1}}
			for _, a := range idx {
				script = append(script, alphabet[a])
			}
			script = append(script, Step{K: "W", Prev: "zero", Cancel: -1})
			exh = append(exh, fix(Case{Threads: [][]Step{script}}))
			j := l - 1
			for j >= 0 {
				idx[j]++
				if idx[j] < len(alphabet) {
					break
				}
				idx[j] = 0
				j--
			}
			if j < 0 {
				break
			}
		}
	}
	runBatch(exh, "exhaustive")
	w.Extra["exhaustive_scope"] = fmt.Sprintf("all single-goroutine sequences of length 1..%d over %d calls (notify, unlock, unlock-without-notify, terminate, wait(0), stale wait, pre-cancelled wait), bracketed by wait(0) reads", maxLen, len(alphabet))

	// Seeded random concurrent scenarios.
	nRandom := 2200
	if cfg.Thorough() {
		nRandom = 40000
	}
	r := cfg.Rand
	var random []Case
	for i := 0; i < nRandom; i++ {
		c := Case{Init: 1}
		if r.Intn(7) == 0 {
			c.Init = ^uint64(0) - uint64(r.Intn(4))
		}
		nt := 2 + r.Intn(3)
		for t := 0; t < nt; t++ {
			var script []Step
			ns := 1 + r.Intn(6)
			for s := 0; s < ns; s++ {
				st := Step{Cancel: -1}
				switch d := r.Intn(10); {
				case d < 5:
				case d < 8:
					st.Delay = r.Intn(60)
				default:
					st.Delay = 50 + r.Intn(400)
				}
				switch k := r.Intn(100); {
				case k < 45:
					st.K = "W"
					switch p := r.Intn(20); {
					case p < 11:
						st.Prev = "last"
					case p < 14:
						st.Prev = "zero"
					case p < 17:
						st.Prev = "old"
					case p < 18:
						st.Prev = "odd"
					default:
						st.Prev = "init"
					}
					switch cc := r.Intn(10); {
					case cc < 6:
					case cc < 7:
						st.Cancel = 0
					default:
						st.Cancel = 30 + r.Intn(1500)
					}
				case k < 74:
					st.K = "N"
				case k < 89:
					st.K = "U"
				case k < 96:
					st.K = "V"
				default:
					st.K = "T"
				}
				script = append(script, st)
			}
			c.Threads = append(c.Threads, script)
		}
		random = append(random, fix(c))
	}
	runBatch(random, "random")
	w.Extra["traces_validated_against_impl"] = w.Total()
	w.Close()
	fmt.Println(strings.TrimSpace(fmt.Sprintf("cases %d", w.Total())))
}
