package main

import (
	"bufio"
	"context"
	"encoding/base64"
	"encoding/hex"
	"encoding/json"
	"fmt"
	"os"
	"os/exec"
	"path/filepath"
	"regexp"
	"runtime"
	"strconv"
	"strings"
	"sync"
	"syscall"

	"google.golang.org/protobuf/proto"

	"github.com/mutagen-io/mutagen/pkg/filesystem"
	"github.com/mutagen-io/mutagen/pkg/synchronization/core"

	"verifharness/internal/hx"
)

// The main goroutine stays on the main thread, so that all system calls of
// core.Transition in child mode are made by one strace tracee (injection
// counters are per tracee).
func init() { runtime.LockOSThread() }

// JE is the child protocol's entry form (digests in hex).
type JE struct {
	K string         `json:"k"`
	X bool           `json:"x,omitempty"`
	D string         `json:"d,omitempty"`
	T string         `json:"t,omitempty"`
	P string         `json:"p,omitempty"`
	C map[string]*JE `json:"c,omitempty"`
}

func toJE(e *core.Entry) *JE {
	if e == nil {
		return nil
	}
	j := &JE{K: e.Kind.String(), X: e.Executable, D: hex.EncodeToString(e.Digest), T: e.Target, P: e.Problem}
	if len(e.Contents) > 0 {
		j.C = map[string]*JE{}
		for n, c := range e.Contents {
			j.C[n] = toJE(c)
		}
	}
	return j
}

func fromJE(j *JE) *core.Entry {
	if j == nil {
		return nil
	}
	e := &core.Entry{Kind: core.EntryKind(core.EntryKind_value[j.K]), Executable: j.X, Target: j.T, Problem: j.P}
	if j.D != "" {
		e.Digest, _ = hex.DecodeString(j.D)
	}
	if len(j.C) > 0 {
		e.Contents = map[string]*core.Entry{}
		for n, c := range j.C {
			e.Contents[n] = fromJE(c)
		}
	}
	return e
}

type childChange struct {
	Path string `json:"path"`
	Old  *JE    `json:"old"`
	New  *JE    `json:"new"`
}

type childInput struct {
	Root     string            `json:"root"`
	Plan     []childChange     `json:"plan"`
	Cache    string            `json:"cache"`
	Slm      int32             `json:"slm"`
	Dfm      uint32            `json:"dfm"`
	Ddm      uint32            `json:"ddm"`
	Own      bool              `json:"own"`
	Uid      int               `json:"uid"`
	Provider map[string]string `json:"provider"`
	Out      string            `json:"out"`
}

type childOutput struct {
	Results  []*JE       `json:"results"`
	Problems [][2]string `json:"problems"`
	Missing  bool        `json:"missing"`
}

const markerBegin = "/verif-marker-begin/x"
const markerEnd = "/verif-marker-end/x"

// childMain runs one core.Transition between two marker system calls.
func childMain(file string) {
	b, err := os.ReadFile(file)
	if err != nil {
		panic(err)
	}
	var in childInput
	if err := json.Unmarshal(b, &in); err != nil {
		panic(err)
	}
	raw, _ := base64.StdEncoding.DecodeString(in.Cache)
	cache := &core.Cache{}
	if err := proto.Unmarshal(raw, cache); err != nil {
		panic(err)
	}
	plan := make([]*core.Change, len(in.Plan))
	for i, c := range in.Plan {
		plan[i] = &core.Change{Path: c.Path, Old: fromJE(c.Old), New: fromJE(c.New)}
	}
	var own *filesystem.OwnershipSpecification
	if in.Own {
		own, err = filesystem.NewOwnershipSpecification(fmt.Sprintf("id:%d", in.Uid), "")
		if err != nil {
			panic(err)
		}
	}
	prov := &provider{table: in.Provider}
	syscall.Mkdir(markerBegin, 0o700)
	res, probs, missing := core.Transition(context.Background(), in.Root, plan, cache,
		core.SymbolicLinkMode(in.Slm), filesystem.Mode(in.Dfm), filesystem.Mode(in.Ddm), own, false, prov)
	syscall.Mkdir(markerEnd, 0o700)
	out := childOutput{Missing: missing}
	for _, e := range res {
		out.Results = append(out.Results, toJE(e))
	}
	for _, p := range probs {
		out.Problems = append(out.Problems, [2]string{p.Path, p.Error})
	}
	ob, _ := json.Marshal(out)
	if err := os.WriteFile(in.Out, ob, 0o644); err != nil {
		panic(err)
	}
}

var tracedSyscalls = []string{"mkdirat", "unlinkat", "renameat2", "symlinkat", "fchmodat", "fchmod",
	"fchownat", "openat", "newfstatat", "readlinkat", "getdents64"}

// writeChildInput serialises the world for the child.
func (w *world) writeChildInput() (string, string, error) {
	raw, err := proto.Marshal(w.cache)
	if err != nil {
		return "", "", err
	}
	in := childInput{Root: w.root, Cache: base64.StdEncoding.EncodeToString(raw), Slm: int32(w.slm),
		Dfm: uint32(w.dfm), Ddm: uint32(w.ddm), Own: w.own, Uid: os.Getuid(), Provider: w.providerTable(),
		Out: filepath.Join(w.base, "child-out.json")}
	for _, c := range w.plan {
		in.Plan = append(in.Plan, childChange{Path: c.Path, Old: toJE(c.Old), New: toJE(c.New)})
	}
	b, _ := json.Marshal(in)
	inFile := filepath.Join(w.base, "child-in.json")
	if err := os.WriteFile(inFile, b, 0o644); err != nil {
		return "", "", err
	}
	return inFile, in.Out, nil
}

func readChildOutput(file string) (*outcome, error) {
	b, err := os.ReadFile(file)
	if err != nil {
		return nil, fmt.Errorf("child produced no output: %w", err)
	}
	var co childOutput
	if err := json.Unmarshal(b, &co); err != nil {
		return nil, err
	}
	out := &outcome{missing: co.Missing}
	for _, e := range co.Results {
		out.results = append(out.results, fromJE(e))
	}
	for _, p := range co.Problems {
		out.problems = append(out.problems, &core.Problem{Path: p[0], Error: p[1]})
	}
	return out, nil
}

var straceLine = regexp.MustCompile(`^(\d+)\s+([a-z0-9_]+)\(`)

// calibrate runs the child under strace without injection and returns, per
// traced system call, how many calls the main thread makes before the begin
// marker (offset) and between the markers (count).
func (w *world) calibrate() (offset, count map[string]int, err error) {
	inFile, _, err := w.writeChildInput()
	if err != nil {
		return nil, nil, err
	}
	logFile := filepath.Join(w.base, "strace.log")
	self, _ := os.Executable()
	cmd := exec.Command("strace", "-f", "-o", logFile, "-e", "trace="+strings.Join(tracedSyscalls, ",")+",mkdir,mkdirat",
		self, "-child", inFile)
	if b, e := cmd.CombinedOutput(); e != nil {
		return nil, nil, fmt.Errorf("strace calibration: %v: %s", e, b)
	}
	f, err := os.Open(logFile)
	if err != nil {
		return nil, nil, err
	}
	defer f.Close()
	offset, count = map[string]int{}, map[string]int{}
	mainPid := ""
	phase := 0
	sc := bufio.NewScanner(f)
	sc.Buffer(make([]byte, 1<<20), 1<<24)
	for sc.Scan() {
		line := sc.Text()
		m := straceLine.FindStringSubmatch(line)
		if m == nil {
			continue
		}
		if mainPid == "" {
			mainPid = m[1]
		}
		if m[1] != mainPid {
			continue
		}
		if strings.Contains(line, markerBegin) {
			offset[m[2]]++
			phase = 1
			continue
		} else if strings.Contains(line, markerEnd) {
			phase = 2
			continue
		}
		switch phase {
		case 0:
			offset[m[2]]++
		case 1:
			count[m[2]]++
		}
	}
	if phase != 2 {
		return nil, nil, fmt.Errorf("markers not found in strace log")
	}
	return offset, count, nil
}

// runChild executes the transition in a child under strace with the case's
// fault injected. The fault's N counts calls inside core.Transition; the
// offset of calls made before it comes from Fault.N already being absolute
// (see sweep), so here it is used as is.
func (w *world) runChild() (*outcome, error) {
	// the offset of the calls made before core.Transition: measured by the
	// sweep for this binary, or measured now (replay, corpus)
	fl := w.c.Fault
	offset := map[string]int{fl.Syscall: fl.Offset}
	if fl.Offset == 0 {
		var err error
		if offset, _, err = w.calibrateOffsetOnly(); err != nil {
			return nil, err
		}
	}
	inFile, outFile, err := w.writeChildInput()
	if err != nil {
		return nil, err
	}
	os.Remove(outFile)
	errno := fl.Errno
	if errno == "" {
		errno = "EIO"
	}
	self, _ := os.Executable()
	cmd := exec.Command("strace", "-f", "-o", "/dev/null", "-e", "trace="+fl.Syscall,
		"-e", fmt.Sprintf("inject=%s:error=%s:when=%d", fl.Syscall, errno, offset[fl.Syscall]+fl.N),
		self, "-child", inFile)
	if b, e := cmd.CombinedOutput(); e != nil {
		return nil, fmt.Errorf("strace run: %v: %s", e, b)
	}
	return readChildOutput(outFile)
}

// calibrateOffsetOnly measures how many calls of each kind the child makes
// before it reaches core.Transition. It does so on a world whose transition
// is empty (the offset does not depend on the plan), so the real tree is left
// untouched.
func (w *world) calibrateOffsetOnly() (map[string]int, map[string]int, error) {
	saved := w.plan
	w.plan = nil
	defer func() { w.plan = saved }()
	return w.calibrate()
}

// sweep is the thorough tier's fault sweep: for a number of seeds, count the
// system calls of the fault-free transition, then re-run it once per (system
// call, index) with that call failed.
func sweep(cfg *hx.Config, wr *hx.Writer, add func(Case, string)) {
	if _, err := exec.LookPath("strace"); err != nil {
		wr.Extra["strace_sweep"] = "strace not available: sweep skipped"
		return
	}
	r := cfg.Rand
	nseeds := 80
	maxPerCall := 8
	total := 0
	type job struct{ c Case }
	var jobs []job
	for i := 0; i < nseeds; i++ {
		seed := r.Int63()
		w, err := prepare(Case{Prop: "C09", Seed: seed, Fault: &Fault{}})
		if err != nil {
			if w != nil {
				w.cleanup()
			}
			continue
		}
		offset, count, err := w.calibrate()
		w.cleanup()
		if err != nil {
			fmt.Fprintf(os.Stderr, "calibrate seed %d: %v\n", seed, err)
			continue
		}
		for _, s := range tracedSyscalls {
			n := count[s]
			if n > maxPerCall {
				n = maxPerCall
			}
			for k := 1; k <= n; k++ {
				jobs = append(jobs, job{Case{Prop: "C09", Seed: seed, Fault: &Fault{Syscall: s, N: k, Errno: "EIO", Offset: offset[s]}}})
			}
			if s == "renameat2" {
				for k := 1; k <= n; k++ {
					jobs = append(jobs, job{Case{Prop: "C09", Seed: seed, Fault: &Fault{Syscall: s, N: k, Errno: "EXDEV", Offset: offset[s]}}})
				}
			}
		}
	}
	// run the injected cases 8 at a time (each is its own temporary world)
	type res struct {
		c    Case
		coq  string
		nt   bool
		tags []string
		err  error
	}
	results := make([]res, len(jobs))
	var wg sync.WaitGroup
	sem := make(chan struct{}, 8)
	for i, j := range jobs {
		wg.Add(1)
		sem <- struct{}{}
		go func(i int, c Case) {
			defer wg.Done()
			defer func() { <-sem }()
			coq, nt, tags, err := runCase(c)
			results[i] = res{c, coq, nt, tags, err}
		}(i, j.c)
	}
	wg.Wait()
	for _, rs := range results {
		if rs.err != nil {
			fmt.Fprintf(os.Stderr, "fault case %+v: %v\n", rs.c, rs.err)
			continue
		}
		wr.Add(hx.Case{Coq: rs.coq, Replay: rs.c, Nontrivial: rs.nt, Tags: rs.tags, Origin: "strace-sweep"})
		total++
	}
	wr.Extra["strace_sweep"] = fmt.Sprintf("%d seeds; per seed every index (up to %d) of each of %s inside core.Transition failed with EIO, renameat2 additionally with EXDEV; %d injected runs",
		nseeds, maxPerCall, strings.Join(tracedSyscalls, ","), total)
	_ = strconv.Itoa
}
