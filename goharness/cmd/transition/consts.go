package main

import (
	"fmt"
	"strings"

	"verifharness/internal/coretree"
)

// named literals of coq/Harness/TransitionH.v (generated together with it)
var namedStrings = map[string]string{
	"a":                    "S_a",
	"b":                    "S_b",
	"c":                    "S_c",
	"d":                    "S_d",
	"e":                    "S_e",
	"f":                    "S_f",
	"g":                    "S_g",
	"n1":                   "S_n1",
	"n2":                   "S_n2",
	"n9":                   "S_n9",
	"u1":                   "S_u1",
	"u2":                   "S_u2",
	"zz":                   "S_zz",
	"q":                    "S_q",
	"root":                 "S_root",
	"inner":                "S_inner",
	"inside":               "S_inside",
	".mutagen-temporary-x": "S__2emutagen_2dtemporary_2dx",
	"c1":                   "S_c1",
	"c22":                  "S_c22",
	"c333":                 "S_c333",
	"":                     "S_empty",
	"c4444":                "S_c4444",
	"xy":                   "S_xy",
	"tmp":                  "S_tmp",
	"n22":                  "S_n22",
	"n333":                 "S_n333",
	"s55555":               "S_s55555",
	"unknown":              "S_unknown",
	"deep":                 "S_deep",
	"x":                    "S_x",
	"was-a-directory":      "S_was_2da_2ddirectory",
	"c1+grown":             "S_c1_2bgrown",
	"c22+grown":            "S_c22_2bgrown",
	"c333+grown":           "S_c333_2bgrown",
	"+grown":               "S__2bgrown",
	"c4444+grown":          "S_c4444_2bgrown",
	"xy+grown":             "S_xy_2bgrown",
	"tmp+grown":            "S_tmp_2bgrown",
	"##":                   "S__23_23",
	"###":                  "S__23_23_23",
	"####":                 "S__23_23_23_23",
	"#####":                "S__23_23_23_23_23",
	"t":                    "S_t",
	"a/b":                  "S_a_2fb",
	"../out":               "S__2e_2e_2fout",
	"/abs":                 "S__2fabs",
	"a/../b":               "S_a_2f_2e_2e_2fb",
	"retargeted":           "S_retargeted",
	"elsewhere":            "S_elsewhere",
}

var namedNumbers = map[uint64]bool{384: true, 416: true, 420: true, 448: true, 488: true, 493: true, 511: true, 4096: true, 33152: true, 33184: true, 33188: true, 33216: true, 33256: true, 33261: true, 33200: true, 33208: true, 33192: true}

func cstr(x string) string {
	if id, ok := namedStrings[x]; ok {
		return id
	}
	return coretree.Str(x)
}

func cpathc(p string) string {
	if p == "" {
		return "[]"
	}
	parts := strings.Split(p, "/")
	items := make([]string, len(parts))
	for i, c := range parts {
		items[i] = cstr(c)
	}
	return "[" + strings.Join(items, "; ") + "]"
}

func num(v uint64) string {
	if v <= 200 || namedNumbers[v] {
		return fmt.Sprintf("k%d", v)
	}
	return fmt.Sprintf("%d", v)
}
