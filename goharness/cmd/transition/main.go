// Harness for C08 and C09: builds a random tree in a real temporary root, scans
// it with core.Scan, (C08) edits it behind the scan's back, runs the real
// core.Transition with a random plan and a staging directory the harness
// fills (with deliberately missing / misplaced / cross-device staged files),
// walks the disk before and after, and emits everything as a Coq term for
// Harness/TransitionH.v.  In the thorough tier of C09 the transition is
// additionally re-executed in a child process under strace with one system
// call failed by injection (see child.go).
package main

import (
	"context"
	"crypto/sha1"
	"encoding/hex"
	"encoding/json"
	"flag"
	"fmt"
	"math/rand"
	"os"
	"path/filepath"
	"sort"
	"strings"
	"syscall"
	"time"

	"github.com/mutagen-io/mutagen/pkg/filesystem"
	"github.com/mutagen-io/mutagen/pkg/filesystem/behavior"
	"github.com/mutagen-io/mutagen/pkg/synchronization/core"
	mutagenignore "github.com/mutagen-io/mutagen/pkg/synchronization/core/ignore/mutagen"

	"verifharness/internal/hx"
)

// Fault is one strace injection: fail the N-th call of Syscall made by
// core.Transition (counted from 1) with EIO (EXDEV for "xdev").
type Fault struct {
	Syscall string `json:"syscall"`
	N       int    `json:"n"`
	Errno   string `json:"errno"`
	// Offset is the number of calls of Syscall the child's main thread makes
	// before it reaches core.Transition; 0 = measure it (replays, corpus).
	Offset int `json:"offset,omitempty"`
}

// Case is the replay form: everything else derives from the seed.
type Case struct {
	Prop  string `json:"prop"`            // C08 | C09
	Seed  int64  `json:"seed"`            // per-case seed
	Edit  string `json:"edit,omitempty"`  // C08: forced edit kind (enumeration)
	Fault *Fault `json:"fault,omitempty"` // C09 thorough: strace injection
	// Scenario names a hand-made world instead of a seeded one (corpus).
	Scenario string `json:"scenario,omitempty"`
	// Big > 0: the root holds a directory with that many files, the plan
	// removes it, and the context is cancelled as soon as the first file is
	// gone (C09: cancellation part-way through removeDirectory's loop).
	Big int `json:"big,omitempty"`
}

const rootName = "root"

func digestOf(content string) []byte {
	h := sha1.Sum([]byte(content))
	return h[:]
}

// ---------- random entries for the "new" side of a plan ----------

func fileEntry(content string, exec bool) *core.Entry {
	return &core.Entry{Kind: core.EntryKind_File, Digest: digestOf(content), Executable: exec}
}

func randomNewEntry(r *rand.Rand, depth int, contents map[string]string) *core.Entry {
	k := r.Intn(10)
	if depth <= 0 && k < 3 {
		k = 3 + r.Intn(7)
	}
	switch {
	case k < 3:
		e := &core.Entry{Kind: core.EntryKind_Directory}
		n := r.Intn(4)
		for i := 0; i < n; i++ {
			if e.Contents == nil {
				e.Contents = map[string]*core.Entry{}
			}
			e.Contents[nameAlphabet[r.Intn(len(nameAlphabet))]] = randomNewEntry(r, depth-1, contents)
		}
		return e
	case k < 8:
		c := []string{"n1", "n22", "c1", "c22", "n333"}[r.Intn(5)]
		contents[hex.EncodeToString(digestOf(c))] = c
		return fileEntry(c, r.Intn(4) == 0)
	default:
		return &core.Entry{Kind: core.EntryKind_SymbolicLink, Target: linkTargets[r.Intn(len(linkTargets))]}
	}
}

// ---------- the world of one case ----------

type stagedSpec struct {
	Path    string // transition path of the file
	Digest  []byte
	Content string
	Status  string // ok xok missing xmissing dir xdir
	Where   string // filesystem path handed out by the provider
}

type world struct {
	c        Case
	base     string // temporary directory (same device as the root)
	xbase    string // temporary directory on another device ("" if unused)
	parent   string
	root     string
	slm      core.SymbolicLinkMode
	dfm, ddm filesystem.Mode
	own      bool
	plan     []*core.Change
	cache    *core.Cache
	staged   []*stagedSpec
	cancel   string // "", "start", "provide:<j>"
	edits    []string
	tags     []string
}

func (w *world) cleanup() {
	if os.Getenv("VERIF_KEEP") != "" {
		fmt.Fprintln(os.Stderr, "kept", w.base, w.xbase)
		return
	}
	if w.base != "" {
		os.RemoveAll(w.base)
	}
	if w.xbase != "" {
		os.RemoveAll(w.xbase)
	}
}

type provider struct {
	table  map[string]string
	calls  int
	onCall func(int)
}

func providerKey(path string, digest []byte) string {
	return path + "\x00" + hex.EncodeToString(digest)
}

func (p *provider) Provide(path string, digest []byte) (string, error) {
	if p.onCall != nil {
		p.onCall(p.calls)
	}
	p.calls++
	if s, ok := p.table[providerKey(path, digest)]; ok {
		return s, nil
	}
	return "/nonexistent-verif-staging/" + hex.EncodeToString(digest), nil
}

func join(prefix, name string) string {
	if prefix == "" {
		return name
	}
	return prefix + "/" + name
}

// entryPaths lists every path of the entry tree e rooted at path p.
func entryPaths(p string, e *core.Entry, f func(p string, e *core.Entry)) {
	if e == nil {
		return
	}
	f(p, e)
	names := make([]string, 0, len(e.Contents))
	for n := range e.Contents {
		names = append(names, n)
	}
	sort.Strings(names)
	for _, n := range names {
		entryPaths(join(p, n), e.Contents[n], f)
	}
}

func nested(a, b string) bool {
	if a == b || a == "" || b == "" {
		return true
	}
	return strings.HasPrefix(a, b+"/") || strings.HasPrefix(b, a+"/")
}

func lookupEntry(e *core.Entry, p string) *core.Entry {
	if p == "" {
		return e
	}
	for _, c := range strings.Split(p, "/") {
		if e == nil {
			return nil
		}
		e = e.Contents[c]
	}
	return e
}

// prepare builds the tree, scans it, chooses the plan, stages files and
// (C08) edits the tree.
func prepare(c Case) (*world, error) {
	if c.Scenario != "" {
		return prepareScenario(c)
	}
	r := rand.New(rand.NewSource(c.Seed))
	w := &world{c: c}
	var err error
	if w.base, err = os.MkdirTemp("", "verif-"); err != nil {
		return nil, err
	}
	w.parent = filepath.Join(w.base, "p")
	w.root = filepath.Join(w.parent, rootName)
	stage := filepath.Join(w.base, "stage")
	if err = os.Mkdir(w.parent, 0o755); err != nil {
		return w, err
	}
	if err = os.Mkdir(stage, 0o755); err != nil {
		return w, err
	}
	w.slm = []core.SymbolicLinkMode{core.SymbolicLinkMode_SymbolicLinkModePortable,
		core.SymbolicLinkMode_SymbolicLinkModePortable, core.SymbolicLinkMode_SymbolicLinkModePOSIXRaw,
		core.SymbolicLinkMode_SymbolicLinkModePOSIXRaw, core.SymbolicLinkMode_SymbolicLinkModeIgnore}[r.Intn(5)]
	w.dfm = []filesystem.Mode{0o600, 0o644, 0o640}[r.Intn(3)]
	w.ddm = []filesystem.Mode{0o700, 0o755}[r.Intn(2)]
	w.own = r.Intn(4) == 0
	// a forced edit needs a node of the right type to be hit by the plan
	want := wantedType(c.Edit)
	if c.Edit == "retarget" && r.Intn(4) != 0 {
		// verbatim link targets are compared only in POSIX raw mode
		w.slm = core.SymbolicLinkMode_SymbolicLinkModePOSIXRaw
	}
	if c.Prop == "C03" && w.slm == core.SymbolicLinkMode_SymbolicLinkModeIgnore {
		w.slm = core.SymbolicLinkMode_SymbolicLinkModePortable
	}

	// the tree
	rootKind := r.Intn(16)
	if want != "" || c.Prop == "C03" || c.Big > 0 {
		rootKind = 2
	}
	var spec *TNode
	switch {
	case rootKind == 0:
		spec = nil
	case rootKind == 1:
		spec = &TNode{Kind: "file", Data: contentPool[r.Intn(len(contentPool))], Mode: 0o644}
	default:
		spec = randomTree(r, 3, true)
		for tries := 0; spec.Kind != "dir" || (want != "" && !hasKind(spec, want, true) && tries < 50); tries++ {
			spec = randomTree(r, 3, true)
		}
		if c.Big > 0 {
			// a directory with many files, for a cancellation that lands
			// part-way through its removal
			big := &TNode{Kind: "dir", Mode: 0o755, Kids: map[string]*TNode{}}
			for i := 0; i < c.Big; i++ {
				big.Kids[fmt.Sprintf("f%03d", i)] = &TNode{Kind: "file", Data: "c1", Mode: 0o644}
			}
			spec = &TNode{Kind: "dir", Mode: 0o755, Kids: map[string]*TNode{"big": big, "e": {Kind: "file", Data: "c22", Mode: 0o644}}}
		}
	}
	if spec != nil {
		if err = build(w.root, spec); err != nil {
			return w, err
		}
	}

	// the scan
	ignorer, err := mutagenignore.NewIgnorer(nil)
	if err != nil {
		return w, err
	}
	snapshot, cache, _, err := core.Scan(context.Background(), w.root, nil, nil, sha1.New(), nil,
		ignorer, nil, behavior.ProbeMode_ProbeModeAssume, w.slm, core.PermissionsMode_PermissionsModePortable)
	if err != nil {
		return w, fmt.Errorf("scan: %w", err)
	}
	w.cache = cache
	snap := snapshot.Content.VerifSynchronizable()

	// the plan
	contents := map[string]string{}
	for _, cpool := range contentPool {
		contents[hex.EncodeToString(digestOf(cpool))] = cpool
	}
	var existing []string
	entryPaths("", snap, func(p string, e *core.Entry) { existing = append(existing, p) })
	var chosen []string
	free := func(p string) bool {
		for _, q := range chosen {
			if nested(p, q) {
				return false
			}
		}
		return true
	}
	add := func(p string, old, new *core.Entry, tag string) {
		chosen = append(chosen, p)
		w.plan = append(w.plan, &core.Change{Path: p, Old: old, New: new})
		w.tags = append(w.tags, "op:"+tag)
	}
	nops := 1 + r.Intn(4)
	if c.Big > 0 {
		add("big", lookupEntry(snap, "big").Copy(core.EntryCopyBehaviorDeep), nil, "delete-big")
		w.cancel = "async"
		nops = 0
	}
	if want != "" && snap != nil {
		// first operation: remove (or swap) a node of the wanted type, directly
		// or through its parent directory
		var typed []string
		entryPaths("", snap, func(p string, e *core.Entry) {
			if p != "" && entryKindName(e) == want {
				typed = append(typed, p)
			}
		})
		if len(typed) > 0 {
			p := typed[r.Intn(len(typed))]
			old := lookupEntry(snap, p).Copy(core.EntryCopyBehaviorDeep)
			switch k := r.Intn(3); {
			case k == 0 && strings.Contains(p, "/"):
				pp := p[:strings.LastIndex(p, "/")]
				add(pp, lookupEntry(snap, pp).Copy(core.EntryCopyBehaviorDeep), nil, "delete-parent-of-edited")
			case k == 1 && want == "file":
				contents[hex.EncodeToString(digestOf("n22"))] = "n22"
				add(p, old, fileEntry("n22", false), "swap-edited")
			default:
				add(p, old, nil, "delete-edited")
			}
		}
	}
	if snap == nil {
		// absent root: create it (or, rarely, something below the absent root)
		if r.Intn(5) == 0 {
			add("a", nil, randomNewEntry(r, 1, contents), "create-under-missing-root")
		} else {
			add("", nil, randomNewEntry(r, 2, contents), "create-root")
		}
		nops = 0
	}
	for i := 0; i < nops*3 && len(w.plan) < nops; i++ {
		switch k := r.Intn(20); {
		case k < 6: // delete
			p := existing[r.Intn(len(existing))]
			if free(p) && (p != "" || r.Intn(4) == 0) {
				add(p, lookupEntry(snap, p).Copy(core.EntryCopyBehaviorDeep), nil, "delete")
			}
		case k < 9: // replace by something else
			p := existing[r.Intn(len(existing))]
			if free(p) && (p != "" || r.Intn(4) == 0) {
				old := lookupEntry(snap, p).Copy(core.EntryCopyBehaviorDeep)
				nw := randomNewEntry(r, 2, contents)
				if old.Kind == core.EntryKind_File && nw.Kind == core.EntryKind_File {
					add(p, old, nw, "swap")
				} else {
					add(p, old, nw, "replace")
				}
			}
		case k < 13: // swap a file
			var files []string
			entryPaths("", snap, func(p string, e *core.Entry) {
				if e.Kind == core.EntryKind_File {
					files = append(files, p)
				}
			})
			if len(files) > 0 {
				p := files[r.Intn(len(files))]
				if free(p) {
					old := lookupEntry(snap, p).Copy(core.EntryCopyBehaviorDeep)
					var nw *core.Entry
					if r.Intn(3) == 0 {
						nw = &core.Entry{Kind: core.EntryKind_File, Digest: old.Digest, Executable: !old.Executable}
						add(p, old, nw, "swap-exec")
					} else {
						c := []string{"n1", "n22", "s55555"}[r.Intn(3)]
						contents[hex.EncodeToString(digestOf(c))] = c
						nw = fileEntry(c, r.Intn(4) == 0)
						add(p, old, nw, "swap")
					}
				}
			}
		case k < 19: // create under an existing directory
			var dirs []string
			entryPaths("", snap, func(p string, e *core.Entry) {
				if e.Kind == core.EntryKind_Directory {
					dirs = append(dirs, p)
				}
			})
			if len(dirs) > 0 {
				d := dirs[r.Intn(len(dirs))]
				n := []string{"a", "b", "c", "n1", "n2", "g"}[r.Intn(6)]
				p := join(d, n)
				if lookupEntry(snap, p) == nil && free(p) {
					add(p, nil, randomNewEntry(r, 2, contents), "create")
				}
			}
		default: // create below a parent that does not exist
			p := "zz/q"
			if lookupEntry(snap, "zz") == nil && free(p) && free("zz") {
				add(p, nil, randomNewEntry(r, 1, contents), "create-no-parent")
			}
		}
	}
	if len(w.plan) == 0 {
		if snap != nil && snap.Kind == core.EntryKind_Directory && lookupEntry(snap, "n9") == nil {
			add("n9", nil, randomNewEntry(r, 2, contents), "create")
		} else if snap != nil {
			add("", snap.Copy(core.EntryCopyBehaviorDeep), nil, "delete")
		}
	}

	// staging
	nstaged := 0
	for _, ch := range w.plan {
		isSwap := ch.Old != nil && ch.New != nil && ch.Old.Kind == core.EntryKind_File && ch.New.Kind == core.EntryKind_File
		entryPaths(ch.Path, ch.New, func(p string, e *core.Entry) {
			if e.Kind != core.EntryKind_File {
				return
			}
			if isSwap && string(ch.Old.Digest) == string(e.Digest) {
				return
			}
			s := &stagedSpec{Path: p, Digest: e.Digest, Content: contents[hex.EncodeToString(e.Digest)]}
			k := r.Intn(100)
			if c.Prop == "C03" && k < 70 {
				k = 70 // cross-device staging: the copy-through-temporary fallback
			}
			switch {
			case k < 64:
				s.Status = "ok"
			case k < 80:
				s.Status = "xok"
			case k < 88:
				s.Status = "missing"
			case k < 92:
				s.Status = "xmissing"
			case k < 96:
				s.Status = "xdir"
			default:
				// a directory on the same device would simply be renamed into a
				// free name: outside the provider's contract, so only used
				// where the rename must fail (a swap over an existing file)
				if isSwap {
					s.Status = "dir"
				} else {
					s.Status = "ok"
				}
			}
			w.staged = append(w.staged, s)
			nstaged++
		})
	}
	for i, s := range w.staged {
		dir := stage
		if strings.HasPrefix(s.Status, "x") {
			if w.xbase == "" {
				if w.xbase, err = os.MkdirTemp("/dev/shm", "verif-"); err != nil {
					return w, err
				}
			}
			dir = w.xbase
		}
		s.Where = filepath.Join(dir, fmt.Sprintf("s%d", i))
		switch s.Status {
		case "ok", "xok":
			if err = os.WriteFile(s.Where, []byte(s.Content), 0o600); err != nil {
				return w, err
			}
		case "dir", "xdir":
			if err = os.Mkdir(s.Where, 0o700); err != nil {
				return w, err
			}
		}
		w.tags = append(w.tags, "staged:"+s.Status)
	}

	// cancellation (C09 only)
	if c.Prop == "C09" && c.Fault == nil && w.cancel == "" {
		switch k := r.Intn(20); {
		case k == 0:
			w.cancel = "start"
		case k < 5 && nstaged > 0 && singleChildDirectories(w.plan):
			// Go iterates target.Contents in random order, so the point at
			// which a cancellation arrives is only reproducible by the model
			// when no created directory has two children
			w.cancel = fmt.Sprintf("provide:%d", r.Intn(nstaged))
		}
	}

	// edits behind the scan's back (C08), or a pre-occupied name (C09)
	if c.Prop == "C08" {
		if err = w.edit(r, c.Edit); err != nil {
			return w, err
		}
	} else if c.Prop == "C03" {
		w.intrude(r)
	} else if r.Intn(6) == 0 {
		// a FIFO squatting on the name a creation wants (not synchronizable
		// content, so the plan's "nothing here" still describes the disk)
		for _, ch := range w.plan {
			if ch.Old == nil && ch.Path != "" {
				full := filepath.Join(w.root, filepath.FromSlash(ch.Path))
				if _, e := os.Lstat(filepath.Dir(full)); e == nil {
					if syscall.Mkfifo(full, 0o644) == nil {
						w.tags = append(w.tags, "fault:name-occupied")
					}
				}
				break
			}
		}
	}
	return w, nil
}

func singleChildDirectories(plan []*core.Change) bool {
	ok := true
	for _, ch := range plan {
		entryPaths(ch.Path, ch.New, func(p string, e *core.Entry) {
			if len(e.Contents) > 1 {
				ok = false
			}
		})
	}
	return ok
}

// prepareScenario builds the hand-made worlds of the corpus.
func prepareScenario(c Case) (*world, error) {
	w := &world{c: c}
	var err error
	if w.base, err = os.MkdirTemp("", "verif-"); err != nil {
		return nil, err
	}
	w.parent = filepath.Join(w.base, "p")
	w.root = filepath.Join(w.parent, rootName)
	if err = os.MkdirAll(w.root, 0o755); err != nil {
		return w, err
	}
	if err = os.Mkdir(filepath.Join(w.base, "stage"), 0o755); err != nil {
		return w, err
	}
	w.dfm, w.ddm = 0o600, 0o700
	switch c.Scenario {
	case "symlink-chown":
		// an ownership is configured and the plan creates a symbolic link: the
		// fchownat after symlinkat is the call the corpus case fails
		w.slm = core.SymbolicLinkMode_SymbolicLinkModePOSIXRaw
		w.own = true
		w.plan = []*core.Change{{Path: "l", New: &core.Entry{Kind: core.EntryKind_SymbolicLink, Target: "t"}}}
	default:
		return w, fmt.Errorf("unknown scenario %q", c.Scenario)
	}
	ignorer, err := mutagenignore.NewIgnorer(nil)
	if err != nil {
		return w, err
	}
	_, cache, _, err := core.Scan(context.Background(), w.root, nil, nil, sha1.New(), nil,
		ignorer, nil, behavior.ProbeMode_ProbeModeAssume, w.slm, core.PermissionsMode_PermissionsModePortable)
	if err != nil {
		return w, fmt.Errorf("scan: %w", err)
	}
	w.cache = cache
	w.tags = append(w.tags, "scenario:"+c.Scenario)
	return w, nil
}

var editKinds = []string{"resize", "mtime", "subsec", "chmod", "inode", "retarget", "child", "type", "remove"}

// wantedType is the type of node a forced edit kind applies to.
func wantedType(edit string) string {
	switch edit {
	case "resize", "mtime", "subsec", "chmod", "inode":
		return "file"
	case "retarget":
		return "link"
	case "child":
		return "dir"
	}
	return ""
}

func entryKindName(e *core.Entry) string {
	switch e.Kind {
	case core.EntryKind_Directory:
		return "dir"
	case core.EntryKind_File:
		return "file"
	case core.EntryKind_SymbolicLink:
		return "link"
	}
	return ""
}

// hasKind reports whether the tree has a node of the kind (below the top).
func hasKind(t *TNode, kind string, top bool) bool {
	if !top && t.Kind == kind {
		// portable mode drops non-portable links from the snapshot
		if kind != "link" || (t.Target != "/abs" && t.Target != "../out") {
			return true
		}
	}
	for _, k := range t.Kids {
		if hasKind(k, kind, false) {
			return true
		}
	}
	return false
}

// intrude (C03) makes content appear after the scan that synchronization does
// not know about: at the paths of planned creations and inside directories the
// plan removes. Regular files, FIFOs and directories.
func (w *world) intrude(r *rand.Rand) {
	put := func(full string) bool {
		if _, err := os.Lstat(full); err == nil {
			return false
		}
		if _, err := os.Lstat(filepath.Dir(full)); err != nil {
			return false
		}
		switch r.Intn(3) {
		case 0:
			return os.WriteFile(full, []byte("unknown"), 0o644) == nil
		case 1:
			return syscall.Mkfifo(full, 0o644) == nil
		default:
			if os.Mkdir(full, 0o755) != nil {
				return false
			}
			os.WriteFile(filepath.Join(full, "inner"), []byte("deep"), 0o644)
			return true
		}
	}
	for _, ch := range w.plan {
		if ch.Old == nil && ch.Path != "" && r.Intn(4) != 0 {
			if put(filepath.Join(w.root, filepath.FromSlash(ch.Path))) {
				w.tags = append(w.tags, "intruder:creation-target")
			}
		}
		if ch.Old != nil {
			var dirs []string
			entryPaths(ch.Path, ch.Old, func(p string, e *core.Entry) {
				if e.Kind == core.EntryKind_Directory {
					dirs = append(dirs, p)
				}
			})
			if len(dirs) > 0 && r.Intn(3) != 0 {
				d := dirs[r.Intn(len(dirs))]
				n := []string{"u1", "u2", "zz"}[r.Intn(3)]
				if lookupEntry(ch.Old, strings.TrimPrefix(strings.TrimPrefix(join(d, n), ch.Path), "/")) == nil {
					if put(filepath.Join(w.root, filepath.FromSlash(join(d, n)))) {
						w.tags = append(w.tags, "intruder:unknown-child")
					}
				}
			}
			if ch.New != nil {
				// a creation inside a replaced directory's place is covered by
				// the first loop only when Old is nil
				_ = ch
			}
		}
	}
}

// edit modifies the tree after the scan.
func (w *world) edit(r *rand.Rand, forced string) error {
	// candidate paths: everything the plan's old entries mention
	type cand struct {
		p string
		e *core.Entry
	}
	var cands []cand
	for _, ch := range w.plan {
		entryPaths(ch.Path, ch.Old, func(p string, e *core.Entry) { cands = append(cands, cand{p, e}) })
	}
	if len(cands) == 0 {
		return nil
	}
	nedits := 1 + r.Intn(3)
	if forced != "" {
		nedits = 1
	}
	if wt := wantedType(forced); wt != "" {
		var typed []cand
		for _, cd := range cands {
			if entryKindName(cd.e) == wt && cd.p != "" {
				typed = append(typed, cd)
			}
		}
		if len(typed) > 0 {
			cands = typed
		}
	}
	for i := 0; i < nedits*4 && len(w.edits) < nedits; i++ {
		cd := cands[r.Intn(len(cands))]
		full := filepath.Join(w.root, filepath.FromSlash(cd.p))
		var st syscall.Stat_t
		if syscall.Lstat(full, &st) != nil {
			continue
		}
		kind := forced
		if kind == "" {
			kind = editKinds[r.Intn(len(editKinds))]
		}
		typ := st.Mode & syscall.S_IFMT
		oldM := time.Unix(st.Mtim.Sec, st.Mtim.Nsec)
		done := false
		switch kind {
		case "resize":
			if typ == syscall.S_IFREG {
				b, _ := os.ReadFile(full)
				f, err := os.OpenFile(full, os.O_WRONLY|os.O_TRUNC, 0)
				if err != nil {
					return err
				}
				f.Write(append(b, []byte("+grown")...))
				f.Close()
				// keep the old modification time: only the size differs
				os.Chtimes(full, oldM, oldM)
				done = true
			}
		case "mtime":
			if typ == syscall.S_IFREG {
				b, _ := os.ReadFile(full)
				nb := []byte(strings.Repeat("#", len(b)))
				f, err := os.OpenFile(full, os.O_WRONLY, 0)
				if err != nil {
					return err
				}
				f.Write(nb)
				f.Close()
				later := oldM.Add(time.Second)
				os.Chtimes(full, later, later)
				done = true
			}
		case "subsec":
			// in place, same size, same inode, and a modification time in the
			// same second: only the nanoseconds differ
			if typ == syscall.S_IFREG {
				b, _ := os.ReadFile(full)
				nb := []byte(strings.Repeat("%", len(b)))
				f, err := os.OpenFile(full, os.O_WRONLY, 0)
				if err != nil {
					return err
				}
				f.Write(nb)
				f.Close()
				ns := st.Mtim.Nsec
				if ns >= 500_000_000 {
					ns -= 123_456_789
				} else {
					ns += 123_456_789
				}
				same := time.Unix(st.Mtim.Sec, ns)
				os.Chtimes(full, same, same)
				done = true
			}
		case "chmod":
			if typ == syscall.S_IFREG {
				os.Chmod(full, os.FileMode((st.Mode&0o777)^0o010))
				done = true
			}
		case "inode":
			if typ == syscall.S_IFREG {
				b, _ := os.ReadFile(full)
				tmp := full + ".verif-new"
				if err := os.WriteFile(tmp, b, os.FileMode(st.Mode&0o777)); err != nil {
					return err
				}
				os.Chmod(tmp, os.FileMode(st.Mode&0o777))
				os.Chtimes(tmp, oldM, oldM)
				if err := os.Rename(tmp, full); err != nil {
					return err
				}
				done = true
			}
		case "retarget":
			if typ == syscall.S_IFLNK {
				os.Remove(full)
				if err := os.Symlink("retargeted", full); err != nil {
					return err
				}
				done = true
			}
		case "child":
			if typ == syscall.S_IFDIR {
				n := []string{"u1", "u2", "a", "b"}[r.Intn(4)]
				if cd.e.Contents[n] == nil {
					cp := filepath.Join(full, n)
					if _, e := os.Lstat(cp); e != nil {
						switch r.Intn(3) {
						case 0:
							os.WriteFile(cp, []byte("unknown"), 0o644)
						case 1:
							os.Mkdir(cp, 0o755)
							os.WriteFile(filepath.Join(cp, "inner"), []byte("deep"), 0o644)
						default:
							os.Symlink("elsewhere", cp)
						}
						done = true
					}
				}
			}
		case "type":
			if cd.p != "" {
				os.RemoveAll(full)
				if typ == syscall.S_IFDIR {
					os.WriteFile(full, []byte("was-a-directory"), 0o644)
				} else {
					os.Mkdir(full, 0o755)
					os.WriteFile(filepath.Join(full, "inside"), []byte("x"), 0o644)
				}
				done = true
			}
		case "remove":
			if cd.p != "" && r.Intn(2) == 0 {
				os.RemoveAll(full)
				done = true
			}
		}
		if done {
			w.edits = append(w.edits, kind)
			w.tags = append(w.tags, "edit:"+kind)
		}
	}
	return nil
}

// ---------- running and printing ----------

// Digests are printed in hexadecimal (an injective renaming of the opaque
// digest strings of the model; plain string literals are much cheaper for Coq
// to read than byte lists).
//
// Coq reads string literals at about a millisecond per character, so each
// distinct digest of a case is further abbreviated to "h<k>" (k = order of
// first appearance while printing; the table [t_hash] is printed first and
// ties every abbreviation to the content it is the real SHA-1 of).
type printer struct{ digestNames map[string]string }

func (pr *printer) hexd(d []byte) string {
	k := hex.EncodeToString(d)
	n, ok := pr.digestNames[k]
	if !ok {
		n = fmt.Sprintf("h%d", len(pr.digestNames)+1)
		pr.digestNames[k] = n
	}
	var idx int
	if _, err := fmt.Sscanf(n, "h%d", &idx); err == nil && idx <= 80 {
		return "S_" + n
	}
	return `"` + n + `"`
}

func (pr *printer) entryBody(e *core.Entry) string {
	contents := func() string {
		names := make([]string, 0, len(e.Contents))
		for n := range e.Contents {
			names = append(names, n)
		}
		sort.Strings(names)
		items := make([]string, len(names))
		for i, n := range names {
			items[i] = "(" + cstr(n) + ", " + pr.entryBody(e.Contents[n]) + ")"
		}
		return "[" + strings.Join(items, "; ") + "]"
	}
	if e == nil {
		return "ENilChildNotRepresentable"
	}
	switch e.Kind {
	case core.EntryKind_Directory:
		return "EDir " + contents()
	case core.EntryKind_File:
		return "EFile " + coqBool(e.Executable) + " " + pr.hexd(e.Digest)
	case core.EntryKind_SymbolicLink:
		return "ELink " + cstr(e.Target)
	case core.EntryKind_Untracked:
		return "EUntracked"
	case core.EntryKind_Problematic:
		return "EProblem " + cstr(e.Problem)
	case core.EntryKind_PhantomDirectory:
		return "EPhantom " + contents()
	default:
		return fmt.Sprintf("EUnknownKind%d", int(e.Kind))
	}
}

func (pr *printer) entryCoq(e *core.Entry) string {
	if e == nil {
		return "None"
	}
	return "(Some (" + pr.entryBody(e) + "))"
}

type outcome struct {
	results  []*core.Entry
	problems []*core.Problem
	missing  bool
}

var problemPrefixes = []struct {
	prefix string
	code   int
}{
	{"unable to open directory", 1},
	{"unable to read directory contents", 2},
	{"transition cancelled", 3},
	{"unknown content encountered on disk", 4},
	{"unable to remove file", 5},
	{"unable to remove symbolic link", 6},
	{"unknown entry type found in removal target", 7},
	{"unable to remove directory", 8},
	{"unable to walk to transition root parent", 10},
	{"unable to walk to transition root", 9},
	{"removal requested for unknown entry type", 11},
	{"unable to create directory", 12},
	{"unable to set directory permissions", 13},
	{"unable to open new directory", 14},
	{"unable to create file", 15},
	{"unable to create symbolic link", 16},
	{"creation requested for unknown entry type", 17},
	{"unable to swap file", 18},
	{"unable to set symbolic link permissions", 19},
}

func problemCode(msg string) int {
	for _, pp := range problemPrefixes {
		if strings.HasPrefix(msg, pp.prefix) {
			return pp.code
		}
	}
	return 0
}

func (w *world) ownership() *filesystem.OwnershipSpecification {
	if !w.own {
		return nil
	}
	o, err := filesystem.NewOwnershipSpecification(fmt.Sprintf("id:%d", os.Getuid()), "")
	if err != nil {
		panic(err)
	}
	return o
}

func (w *world) providerTable() map[string]string {
	t := map[string]string{}
	for _, s := range w.staged {
		t[providerKey(s.Path, s.Digest)] = s.Where
	}
	return t
}

// runInProcess calls core.Transition directly.
func (w *world) runInProcess() *outcome {
	ctx, cancel := context.WithCancel(context.Background())
	defer cancel()
	prov := &provider{table: w.providerTable()}
	stop := make(chan struct{})
	defer close(stop)
	if w.cancel == "async" {
		// cancel as soon as the first child of root/big has disappeared
		big := filepath.Join(w.root, "big")
		initial := countEntries(big)
		go func() {
			for {
				select {
				case <-stop:
					return
				default:
				}
				if n := countEntries(big); n >= 0 && n < initial {
					cancel()
					return
				}
			}
		}()
	}
	if w.cancel == "start" {
		cancel()
	} else if strings.HasPrefix(w.cancel, "provide:") {
		var j int
		fmt.Sscanf(w.cancel, "provide:%d", &j)
		prov.onCall = func(i int) {
			if i == j {
				cancel()
			}
		}
	}
	res, probs, missing := core.Transition(ctx, w.root, w.plan, w.cache, w.slm, w.dfm, w.ddm,
		w.ownership(), false, prov)
	return &outcome{res, probs, missing}
}

// countEntries is the number of names in a directory (-1 if unreadable).
func countEntries(dir string) int {
	f, err := os.Open(dir)
	if err != nil {
		return -1
	}
	defer f.Close()
	names, err := f.Readdirnames(-1)
	if err != nil {
		return -1
	}
	return len(names)
}

func slmName(m core.SymbolicLinkMode) string {
	switch m {
	case core.SymbolicLinkMode_SymbolicLinkModeIgnore:
		return "SLIgnore"
	case core.SymbolicLinkMode_SymbolicLinkModePortable:
		return "SLPortable"
	default:
		return "SLRaw"
	}
}

func coqBool(b bool) string {
	if b {
		return "true"
	}
	return "false"
}

// emit renders the case.
func (w *world) emit(pre, post *WNode, out *outcome) string {
	var sb strings.Builder
	pr := &printer{digestNames: map[string]string{}}
	fmt.Fprintf(&sb, "mkT %s %s %s %s %s\n ", cstr(rootName), slmName(w.slm), num(uint64(w.dfm)), num(uint64(w.ddm)), coqBool(w.own))

	// norm table: every (path, target) the model may ask about
	type pt struct{ p, t string }
	seen := map[pt]bool{}
	var norms []string
	addNorm := func(p, t string) {
		if seen[pt{p, t}] {
			return
		}
		seen[pt{p, t}] = true
		n, err := core.VerifNormalizeSymbolicLinkAndEnsurePortable(p, t)
		v := "None"
		if err == nil {
			v = "(Some " + cstr(n) + ")"
		}
		norms = append(norms, fmt.Sprintf("(%s, %s, %s)", cpathc(p), cstr(t), v))
	}
	hashes := map[string]bool{}
	var hashItems []string
	addHash := func(d string) {
		if hashes[d] {
			return
		}
		hashes[d] = true
		hashItems = append(hashItems, fmt.Sprintf("(%s, %s)", cstr(d), pr.hexd(digestOf(d))))
	}
	for _, top := range []*WNode{pre, post} {
		for _, k := range top.Kids {
			if k.Name != rootName {
				continue
			}
			k.visit("", func(rel string, n *WNode) {
				if n.Type == syscall.S_IFLNK {
					addNorm(rel, n.Target)
				}
				if n.Type == syscall.S_IFREG {
					addHash(n.Data)
				}
			})
		}
	}
	for _, ch := range w.plan {
		for _, e := range []*core.Entry{ch.Old, ch.New} {
			entryPaths(ch.Path, e, func(p string, x *core.Entry) {
				if x.Kind == core.EntryKind_SymbolicLink {
					addNorm(p, x.Target)
				}
			})
		}
	}
	for _, s := range w.staged {
		addHash(s.Content)
	}
	fmt.Fprintf(&sb, "([%s] : list (path * string * option string))\n ([%s] : list (string * string))\n ", strings.Join(norms, "; "), strings.Join(hashItems, "; "))

	mtR, inoR := newRanks(), newRanks()
	pre.noteRanks(mtR, inoR)
	post.noteRanks(mtR, inoR)
	for _, e := range w.cache.GetEntries() {
		mtR.note(uint64(e.ModificationTime.AsTime().UnixNano()))
		inoR.note(e.FileID)
	}
	mtR.freeze()
	inoR.freeze()
	fmt.Fprintf(&sb, "(%s : node)\n ", pre.coq(mtR, inoR))

	// cache
	var cpaths []string
	for p := range w.cache.GetEntries() {
		cpaths = append(cpaths, p)
	}
	sort.Strings(cpaths)
	citems := make([]string, len(cpaths))
	for i, p := range cpaths {
		e := w.cache.Entries[p]
		citems[i] = fmt.Sprintf("(%s, ce %s %s %s %s %s)", cpathc(p), num(uint64(e.Mode)),
			num(uint64(mtR.of(uint64(e.ModificationTime.AsTime().UnixNano())))), num(e.Size), num(uint64(inoR.of(e.FileID))), pr.hexd(e.Digest))
	}
	fmt.Fprintf(&sb, "([%s] : cache)\n ", strings.Join(citems, "; "))

	chitems := make([]string, len(w.plan))
	for i, ch := range w.plan {
		chitems[i] = "(mk " + cpathc(ch.Path) + " " + pr.entryCoq(ch.Old) + " " + pr.entryCoq(ch.New) + ")"
	}
	fmt.Fprintf(&sb, "([%s] : list change)\n ", strings.Join(chitems, "; "))

	sitems := make([]string, len(w.staged))
	for i, s := range w.staged {
		obj := "None"
		switch s.Status {
		case "ok", "xok":
			obj = fmt.Sprintf("(Some (SFile k384 %s))", cstr(s.Content))
		case "dir", "xdir":
			obj = "(Some (SDir k448))"
		}
		sitems[i] = fmt.Sprintf("((%s, %s), sl %s %s)", cpathc(s.Path), pr.hexd(s.Digest),
			coqBool(strings.HasPrefix(s.Status, "x")), obj)
	}
	fmt.Fprintf(&sb, "([%s] : store)\n ", strings.Join(sitems, "; "))

	switch {
	case w.cancel == "":
		sb.WriteString("CNever ")
	case w.cancel == "start":
		sb.WriteString("CStart ")
	case w.cancel == "async":
		sb.WriteString("CAsync ")
	default:
		var j int
		fmt.Sscanf(w.cancel, "provide:%d", &j)
		fmt.Fprintf(&sb, "(CProvide %d) ", j)
	}
	fmt.Fprintf(&sb, "%s\n ", coqBool(w.c.Fault != nil))
	fmt.Fprintf(&sb, "(%s : node)\n ", post.coq(mtR, inoR))

	ritems := make([]string, len(out.results))
	for i, e := range out.results {
		ritems[i] = pr.entryCoq(e)
	}
	fmt.Fprintf(&sb, "([%s] : list oentry)\n ", strings.Join(ritems, "; "))
	pitems := make([]string, len(out.problems))
	for i, p := range out.problems {
		pitems[i] = fmt.Sprintf("(%s, %d)", cpathc(p.Path), problemCode(p.Error))
	}
	fmt.Fprintf(&sb, "([%s] : list problem) %s", strings.Join(pitems, "; "), coqBool(out.missing))
	return sb.String()
}

// secondFilesystem reports whether /dev/shm is another device than the
// temporary directory.
func secondFilesystem() bool {
	var a, b syscall.Stat_t
	if syscall.Stat(os.TempDir(), &a) != nil || syscall.Stat("/dev/shm", &b) != nil {
		return false
	}
	return a.Dev != b.Dev
}

const header = "From Coq Require Import List String NArith.\nImport ListNotations.\nOpen Scope string_scope.\nFrom Mv Require Import Common.Bytes Model.Entry Model.Fs Model.FsExt Model.Transition Model.TransitionCheck Harness.TransitionH."

// runCase performs one case end to end and returns its Coq term.
func runCase(c Case) (coq string, nontrivial bool, tags []string, err error) {
	if c.Big > 0 {
		// retry with larger directories until the cancellation lands while the
		// directory is partly removed
		for attempt := 0; ; attempt++ {
			cc := c
			cc.Big = c.Big << attempt
			coq, nontrivial, tags, landed, err := runCaseOnce(cc)
			if err != nil || landed || attempt == 3 {
				if landed {
					tags = append(tags, "cancel:landed-mid-removal")
				}
				return coq, nontrivial, tags, err
			}
		}
	}
	coq, nontrivial, tags, _, err = runCaseOnce(c)
	return
}

func runCaseOnce(c Case) (coq string, nontrivial bool, tags []string, landed bool, err error) {
	w, err := prepare(c)
	if w != nil {
		defer w.cleanup()
	}
	if err != nil {
		return "", false, nil, false, err
	}
	pre := walk(w.parent)
	var out *outcome
	if c.Fault != nil {
		out, err = w.runChild()
		if err != nil {
			return "", false, nil, false, err
		}
	} else {
		out = w.runInProcess()
	}
	post := walk(w.parent)
	tags = append(w.tags, "slm:"+slmName(w.slm), fmt.Sprintf("plan-len:%d", len(w.plan)))
	if w.cancel != "" {
		tags = append(tags, "cancel:"+strings.SplitN(w.cancel, ":", 2)[0])
	}
	if w.own {
		tags = append(tags, "ownership:set")
	}
	if out.missing {
		tags = append(tags, "out:missing-files")
	}
	if len(out.problems) > 0 {
		tags = append(tags, "out:problems")
	}
	if c.Fault != nil {
		tags = append(tags, "inject:"+c.Fault.Syscall)
	}
	nontrivial = len(out.problems) > 0 || pre.raw() != post.raw()
	if c.Big > 0 {
		left := countEntries(filepath.Join(w.root, "big"))
		landed = left > 0 && left < c.Big
	}
	return w.emit(pre, post, out), nontrivial, tags, landed, nil
}

func main() {
	prop := flag.String("prop", "C09", "C08|C09")
	fixed := flag.Bool("fixed", false, "compare with the model of createSymbolicLink as repaired")
	if len(os.Args) > 2 && os.Args[1] == "-child" {
		childMain(os.Args[2])
		return
	}
	cfg := hx.Parse()
	fn := "c09_failures"
	if *prop == "C08" {
		fn = "c08_failures"
	} else if *prop == "C03" {
		fn = "c03_failures"
	}
	if *fixed {
		fn += "_fixed"
	}
	w := hx.NewWriter(cfg, header, "tcase", fn, 60)
	w.Rule = "a case = one real core.Transition call on a fresh temporary root: (settings, tables of the real normalizer and hash, disk walk before, scan cache, plan, staging table, cancellation, disk walk after, results, problems, missingFiles); distinct = distinct Coq terms (inode numbers and timestamps make every run distinct, so the tags carry the distribution); non-trivial = the transition changed the disk or recorded a problem"
	add := func(c Case, origin string) {
		if w.Aborted {
			return
		}
		if c.Fault != nil {
			// a stored offset belongs to the binary that measured it
			f := *c.Fault
			f.Offset = 0
			c.Fault = &f
		}
		var coq string
		var nt bool
		var tags []string
		var err error
		if w.Guard(c, 20*time.Second, func() { coq, nt, tags, err = runCase(c) }) {
			if err != nil {
				fmt.Fprintf(os.Stderr, "case %+v: setup failed: %v\n", c, err)
				return
			}
			w.Add(hx.Case{Coq: coq, Replay: c, Nontrivial: nt, Tags: tags, Origin: origin})
		}
	}
	if cfg.Replay != "" {
		b, err := os.ReadFile(cfg.Replay)
		if err != nil {
			panic(err)
		}
		var wrapper struct {
			Case Case `json:"case"`
		}
		if err := json.Unmarshal(b, &wrapper); err != nil {
			panic(err)
		}
		add(wrapper.Case, "replay")
		w.Close()
		return
	}
	for _, raw := range hx.LoadCorpus(cfg.Corpus) {
		var c Case
		if json.Unmarshal(raw, &c) == nil && c.Prop == *prop {
			add(c, "corpus")
		}
	}
	r := cfg.Rand
	n := 240
	if cfg.Thorough() {
		n = 1600
	}
	if *prop == "C08" {
		// every edit kind forced once per block, then free mixtures
		for i := 0; i < n; i++ {
			c := Case{Prop: "C08", Seed: r.Int63()}
			if i%3 == 0 {
				c.Edit = editKinds[(i/3)%len(editKinds)]
			}
			add(c, "random")
		}
	} else if *prop == "C03" {
		// needs a second filesystem for the staging directory
		if !secondFilesystem() {
			w.Extra["c03_disk"] = "no second filesystem (/dev/shm) available: cross-device cases skipped"
		} else {
			m := 120
			if cfg.Thorough() {
				m = 1200
			}
			for i := 0; i < m; i++ {
				add(Case{Prop: "C03", Seed: r.Int63()}, "random")
			}
		}
	} else {
		if !cfg.Thorough() {
			n = 200
		}
		for i := 0; i < n; i++ {
			add(Case{Prop: "C09", Seed: r.Int63()}, "random")
		}
		nbig := 3
		if cfg.Thorough() {
			nbig = 20
		}
		for i := 0; i < nbig; i++ {
			add(Case{Prop: "C09", Seed: r.Int63(), Big: 100}, "cancel-mid-removal")
		}
		if cfg.Thorough() {
			sweep(cfg, w, add)
		}
	}
	w.Close()
	fmt.Printf("cases %d\n", w.Total())
}
