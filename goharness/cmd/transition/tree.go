package main

import (
	"fmt"
	"math/rand"
	"os"
	"path/filepath"
	"sort"
	"strings"
	"syscall"
)

// TNode is the specification of one filesystem node the harness builds.
type TNode struct {
	Kind   string            // dir file link fifo
	Data   string            // file content
	Mode   uint32            // permission bits of files and directories
	Target string            // link target
	Kids   map[string]*TNode // directory contents
}

var nameAlphabet = []string{"a", "b", "c", "d", "e", "f"}
var contentPool = []string{"c1", "c22", "c333", "", "c4444", "xy"}
var linkTargets = []string{"t", "a/b", "c", "../out", "/abs", "a/../b"}

func randomLeaf(r *rand.Rand, unsync bool) *TNode {
	k := r.Intn(20)
	switch {
	case k < 12:
		mode := []uint32{0o644, 0o600, 0o755, 0o640, 0o700}[r.Intn(5)]
		return &TNode{Kind: "file", Data: contentPool[r.Intn(len(contentPool))], Mode: mode}
	case k < 17:
		return &TNode{Kind: "link", Target: linkTargets[r.Intn(len(linkTargets))]}
	case k < 18 && unsync:
		return &TNode{Kind: "fifo", Mode: 0o644}
	default:
		return &TNode{Kind: "file", Data: "c1", Mode: 0o644}
	}
}

func randomTree(r *rand.Rand, depth int, unsync bool) *TNode {
	if depth <= 0 || r.Intn(10) >= 5 {
		return randomLeaf(r, unsync)
	}
	d := &TNode{Kind: "dir", Mode: []uint32{0o755, 0o700, 0o750}[r.Intn(3)], Kids: map[string]*TNode{}}
	n := r.Intn(5)
	for i := 0; i < n; i++ {
		d.Kids[nameAlphabet[r.Intn(len(nameAlphabet))]] = randomTree(r, depth-1, unsync)
	}
	if unsync && r.Intn(12) == 0 {
		d.Kids[".mutagen-temporary-x"] = &TNode{Kind: "file", Data: "tmp", Mode: 0o600}
	}
	return d
}

// build creates the node at path p (which must not exist).
func build(p string, t *TNode) error {
	switch t.Kind {
	case "dir":
		if err := os.Mkdir(p, 0o700); err != nil {
			return err
		}
		names := make([]string, 0, len(t.Kids))
		for n := range t.Kids {
			names = append(names, n)
		}
		sort.Strings(names)
		for _, n := range names {
			if err := build(filepath.Join(p, n), t.Kids[n]); err != nil {
				return err
			}
		}
		return os.Chmod(p, os.FileMode(t.Mode))
	case "file":
		if err := os.WriteFile(p, []byte(t.Data), 0o600); err != nil {
			return err
		}
		return os.Chmod(p, os.FileMode(t.Mode))
	case "link":
		return os.Symlink(t.Target, p)
	case "fifo":
		return syscall.Mkfifo(p, t.Mode)
	}
	return fmt.Errorf("unknown kind %q", t.Kind)
}

// WNode is one node of a walk of the real disk.
type WNode struct {
	Name   string
	Type   uint32 // st_mode & S_IFMT
	Perm   uint32 // st_mode & 07777
	Mtime  int64  // nanoseconds
	Ino    uint64
	Data   string
	Target string
	Kids   []*WNode
}

// walk reads the node at p without following links; nil if absent.
func walk(p string) *WNode {
	var st syscall.Stat_t
	if err := syscall.Lstat(p, &st); err != nil {
		return nil
	}
	w := &WNode{Name: filepath.Base(p), Type: st.Mode & syscall.S_IFMT, Perm: st.Mode & 0o7777,
		Mtime: st.Mtim.Sec*1e9 + st.Mtim.Nsec, Ino: st.Ino}
	switch w.Type {
	case syscall.S_IFDIR:
		ents, err := os.ReadDir(p)
		if err != nil {
			panic(err)
		}
		names := make([]string, 0, len(ents))
		for _, e := range ents {
			names = append(names, e.Name())
		}
		sort.Strings(names)
		for _, n := range names {
			if k := walk(filepath.Join(p, n)); k != nil {
				w.Kids = append(w.Kids, k)
			}
		}
	case syscall.S_IFREG:
		b, err := os.ReadFile(p)
		if err != nil {
			panic(err)
		}
		w.Data = string(b)
	case syscall.S_IFLNK:
		t, err := os.Readlink(p)
		if err != nil {
			panic(err)
		}
		w.Target = t
	}
	return w
}

// ranks renames timestamps and inode numbers to their ranks among the values
// occurring in one case: the model only compares them for equality, and Coq
// reads 19-digit literals very slowly.
type ranks struct {
	vals map[uint64]bool
	rank map[uint64]int
}

func newRanks() *ranks { return &ranks{vals: map[uint64]bool{}} }

func (r *ranks) note(v uint64) { r.vals[v] = true }

func (r *ranks) freeze() {
	keys := make([]uint64, 0, len(r.vals))
	for v := range r.vals {
		keys = append(keys, v)
	}
	sort.Slice(keys, func(i, j int) bool { return keys[i] < keys[j] })
	r.rank = map[uint64]int{}
	for i, v := range keys {
		r.rank[v] = i + 1
	}
}

func (r *ranks) of(v uint64) int { return r.rank[v] }

func (w *WNode) noteRanks(mt, ino *ranks) {
	mt.note(uint64(w.Mtime))
	ino.note(w.Ino)
	for _, k := range w.Kids {
		k.noteRanks(mt, ino)
	}
}

// raw renders the node with its real numbers (used to detect changes).
func (w *WNode) raw() string {
	id := newRanks()
	id2 := newRanks()
	w.noteRanks(id, id2)
	id.rank, id2.rank = map[uint64]int{}, map[uint64]int{}
	for v := range id.vals {
		id.rank[v] = int(v % 1000000007)
	}
	for v := range id2.vals {
		id2.rank[v] = int(v)
	}
	return w.coq(id, id2)
}

// coq renders a walked node with the constructors of Harness/TransitionH.v.
func (w *WNode) coq(mt, ino *ranks) string {
	switch w.Type {
	case syscall.S_IFDIR:
		items := make([]string, len(w.Kids))
		for i, k := range w.Kids {
			items[i] = "(" + cstr(k.Name) + ", " + k.coq(mt, ino) + ")"
		}
		return fmt.Sprintf("D %s %s %s [%s]", num(uint64(w.Perm)), num(uint64(mt.of(uint64(w.Mtime)))), num(uint64(ino.of(w.Ino))), strings.Join(items, "; "))
	case syscall.S_IFREG:
		return fmt.Sprintf("F %s %s %s %s", num(uint64(w.Perm)), num(uint64(mt.of(uint64(w.Mtime)))), num(uint64(ino.of(w.Ino))), cstr(w.Data))
	case syscall.S_IFLNK:
		return fmt.Sprintf("L %s %s %s", num(uint64(mt.of(uint64(w.Mtime)))), num(uint64(ino.of(w.Ino))), cstr(w.Target))
	default:
		return fmt.Sprintf("X %s %s %s %s", num(uint64(w.Perm)), num(uint64(mt.of(uint64(w.Mtime)))), num(uint64(ino.of(w.Ino))), num(uint64(w.Type)))
	}
}

// visit calls f for every node below (and including) w with its path relative
// to the walk's top ("" for the top itself).
func (w *WNode) visit(rel string, f func(rel string, n *WNode)) {
	if w == nil {
		return
	}
	f(rel, w)
	for _, k := range w.Kids {
		if rel == "" {
			k.visit(k.Name, f)
		} else {
			k.visit(rel+"/"+k.Name, f)
		}
	}
}
