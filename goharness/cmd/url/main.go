// Harness for C38 (URLs round-trip through their text form).
//
// For each raw string and kind it runs the real url.Parse, and for a parsed
// URL the real EnsureValid, Format("") and Parse again; for arbitrary URL
// values it runs EnsureValid and Format. Every observation is emitted as a Coq
// term for Harness/UrlH.v, which compares it with Model/Url.v (bit 1) and
// applies check_C38 to the implementation's own outputs (bit 2).
package main

import (
	"encoding/json"
	"flag"
	"fmt"
	"os"
	"time"

	"github.com/mutagen-io/mutagen/pkg/url"

	"verifharness/internal/bstr"
	"verifharness/internal/hx"
	"verifharness/internal/urlcoq"
)

// Case is the replay form of one case.
type Case struct {
	Op   string            `json:"op"` // "parse" | "valid" | "format"
	Raw  bstr.JStr         `json:"raw,omitempty"`
	Kind int               `json:"kind,omitempty"` // 0 synchronization, 1 forwarding
	Env  map[string]string `json:"env,omitempty"`  // Docker variables set while parsing
	URL  *urlcoq.JURL      `json:"url,omitempty"`  // for valid / format
}

func runParse(c Case) (string, bool, []string) {
	raw := c.Raw.Get()
	kind := url.Kind_Synchronization
	if c.Kind == 1 {
		kind = url.Kind_Forwarding
	}
	restore := urlcoq.SetDockerEnv(c.Env)
	defer restore()

	tags := []string{"op:parse", "kind:" + kind.String()}
	u1, err1 := url.Parse(raw, kind, true)
	out1 := urlcoq.Result(u1, err1)
	valid1, fmt1, out2 := "false", "SameRaw", "Same2"
	nontrivial := false
	if err1 == nil {
		tags = append(tags, "parsed:"+u1.Protocol.String())
		verr := u1.EnsureValid()
		if verr == nil {
			valid1 = "true"
		} else {
			tags = append(tags, "parsed-but-invalid")
		}
		f := u1.Format("")
		if f != raw {
			fmt1 = "(Fm " + bstr.B(f) + ")"
			tags = append(tags, "format-differs-from-input")
			nontrivial = true
		}
		u2, err2 := url.Parse(f, kind, true)
		o2 := urlcoq.Result(u2, err2)
		if o2 != out1 {
			out2 = "(O2 " + o2 + ")"
			tags = append(tags, "reparse-differs")
		}
		if u1.Port != 0 {
			tags = append(tags, "has-port")
		}
		if u1.User != "" {
			tags = append(tags, "has-user")
		}
		if u1.Protocol != url.Protocol_Local {
			nontrivial = true
		}
	} else {
		tags = append(tags, "err:"+urlcoq.ErrName(err1))
	}
	coq := fmt.Sprintf("UP %s %s %s %s %s %s %s %s", bstr.B(raw), urlcoq.Kind(kind), urlcoq.KV(urlcoq.EnvList(c.Env)),
		urlcoq.NormalizeOracle(raw, u1, err1), out1, valid1, fmt1, out2)
	// the common local synchronization case, abbreviated (the Coq constructor
	// UL rebuilds exactly the UP term this branch would have printed)
	if err1 == nil && kind == url.Kind_Synchronization && len(c.Env) == 0 && valid1 == "true" && out2 == "Same2" {
		n := u1.Path
		plain := &url.URL{Kind: kind, Protocol: url.Protocol_Local, Path: n}
		if urlcoq.Result(u1, nil) == urlcoq.Result(plain, nil) && u1.Format("") == n &&
			urlcoq.NormalizeOracle(raw, u1, nil) == urlcoq.LocalOracle(raw, n) {
			coq = fmt.Sprintf("UL %s %s", bstr.B(raw), bstr.B(n))
		}
	}
	return coq, nontrivial, tags
}

func runValue(c Case) (string, bool, []string) {
	u := c.URL.ToURL()
	if c.Op == "valid" {
		v := "false"
		err := u.EnsureValid()
		if err == nil {
			v = "true"
		}
		return fmt.Sprintf("UV %s %s", urlcoq.URL(u), v), err == nil, []string{"op:valid", "valid:" + v}
	}
	f := u.Format("")
	return fmt.Sprintf("UF %s %s", urlcoq.URL(u), bstr.B(f)), true, []string{"op:format", "proto:" + u.Protocol.String()}
}

func main() {
	fixed := flag.String("fixed", "", "repairs the implementation is expected to contain: 38, 36, or 36,38 (also: all)")
	cfg := hx.Parse()
	failFn := urlcoq.FailFn("url_failures", *fixed)
	header := "From Coq Require Import List String NArith.\nFrom Coq.Strings Require Import Byte.\nImport ListNotations.\nOpen Scope string_scope.\nFrom Mv Require Import Common.Bytes Common.Str Model.Url Harness.UrlH.\nOpen Scope nat_scope."
	w := hx.NewWriter(cfg, header, "ucase", failFn, 250)
	w.Rule = "a case = one raw string and kind with the results of the real Parse, EnsureValid, Format(\"\") and Parse again (or one URL value with the result of EnsureValid / Format); distinct = distinct Coq terms; non-trivial = parsed as SSH or Docker, or the formatted text differs from the input"
	w.Extra["model_variant"] = failFn

	// relative local paths are resolved against the working directory; a short
	// one keeps the case files small (nothing is created on disk)
	os.Chdir("/")

	add := func(c Case, origin string) {
		if w.Aborted {
			return
		}
		var coq string
		var nt bool
		var tags []string
		ok := w.Guard(c, 5*time.Second, func() {
			if c.Op == "parse" {
				coq, nt, tags = runParse(c)
			} else {
				coq, nt, tags = runValue(c)
			}
		})
		if ok {
			w.Add(hx.Case{Coq: coq, Replay: c, Nontrivial: nt, Tags: tags, Origin: origin})
		}
	}

	if cfg.Replay != "" {
		b, err := os.ReadFile(cfg.Replay)
		if err != nil {
			panic(err)
		}
		var wrapper struct {
			Case Case `json:"case"`
		}
		if err := json.Unmarshal(b, &wrapper); err != nil {
			panic(err)
		}
		add(wrapper.Case, "replay")
		w.Close()
		return
	}

	for _, raw := range hx.LoadCorpus(cfg.Corpus) {
		var c Case
		if json.Unmarshal(raw, &c) == nil && c.Op != "" {
			add(c, "corpus")
		}
	}

	// Exhaustive small scope.
	maxLen := 3
	if cfg.Thorough() {
		maxLen = 4
	}
	n := 0
	enumerate := func(alphabet string, maxLen int, f func(string)) {
		for l := 0; l <= maxLen; l++ {
			idx := make([]int, l)
			for {
				b := make([]byte, l)
				for i, a := range idx {
					b[i] = alphabet[a]
				}
				f(string(b))
				j := l - 1
				for j >= 0 {
					idx[j]++
					if idx[j] < len(alphabet) {
						break
					}
					idx[j] = 0
					j--
				}
				if j < 0 {
					break
				}
			}
		}
	}
	enumerate("a@:/0-", maxLen, func(s string) {
		if s == "" {
			return
		}
		add(Case{Op: "parse", Raw: bstr.J(s), Kind: 0}, "exhaustive")
		n++
	})
	enumerate("a@:0-", maxLen-1, func(s string) {
		add(Case{Op: "parse", Raw: bstr.J(s + ":tcp:h:1"), Kind: 1}, "exhaustive")
		n++
	})
	enumerate("a@/:~-", maxLen, func(s string) {
		add(Case{Op: "parse", Raw: bstr.J("docker://" + s), Kind: 0}, "exhaustive")
		add(Case{Op: "parse", Raw: bstr.J("docker://" + s + ":tcp:h:1"), Kind: 1}, "exhaustive")
		n += 2
	})
	// structured scope: [user@]host:[port:]path over small component sets
	sUsers := []string{"", "a", "-a"}
	sHosts := []string{"a", "-a", "docker", "tcp"}
	sPorts := []string{"-", "", "0", "00", "1", "65535", "65536"} // "-" = no port segment
	sPaths := [][2]string{{"a", "tcp:h:1"}, {"0:a", "tcp:0:1"}, {"1:a", "unix:/s"}, {"/a", "unix:s"}, {"//a/b", "npipe:p"}, {"~", "tcp:"}, {"C:\\a", "x:y"}, {"", ""}, {":a", "tcp:h:1"}, {"00:", "unix:/0:1"}}
	for _, us := range sUsers {
		for _, h := range sHosts {
			for _, po := range sPorts {
				for _, pa := range sPaths {
					for kind := 0; kind < 2; kind++ {
						raw := h + ":"
						if us != "" {
							raw = us + "@" + raw
						}
						if po != "-" {
							raw += po + ":"
						}
						raw += pa[kind]
						add(Case{Op: "parse", Raw: bstr.J(raw), Kind: kind}, "exhaustive")
						n++
					}
				}
			}
		}
	}
	w.Extra["exhaustive_scope"] = fmt.Sprintf("[user@]host:[port:]path over users {none,a,-a} x hosts {a,-a,docker,tcp} x ports {none,empty,0,00,1,65535,65536} x 10 paths per kind; "+"synchronization: every non-empty string of length <= %d over {a @ : / 0 -}; forwarding: every string of length <= %d over {a @ : 0 -} followed by ':tcp:h:1'; Docker: 'docker://' + every string of length <= %d over {a @ / : ~ -} (both kinds) (%d cases)", maxLen, maxLen-1, maxLen, n)

	// Grammar-driven random strings and URL values.
	g := urlcoq.NewGen(cfg.Rand)
	nRandom, nValues := 1800, 500
	if cfg.Thorough() {
		nRandom, nValues = 30000, 5000
	}
	for i := 0; i < nRandom; i++ {
		raw, kind, env := g.RawURL()
		add(Case{Op: "parse", Raw: bstr.J(raw), Kind: kind, Env: env}, "random")
	}
	for i := 0; i < nValues; i++ {
		u := g.URLValue()
		op := "valid"
		if i%3 == 0 {
			op = "format"
		}
		add(Case{Op: op, URL: u}, "random")
	}
	w.Close()
	fmt.Printf("cases %d\n", w.Total())
}
