// Harness for C42: real local endpoints in force-poll mode (one-second polling
// interval, accelerated scanning) are driven, many at a time on separate
// roots, by a single driver each: Scan calls, complete Stage/Supply/Transition
// cycles that create, replace or remove one file, external edits, external
// reversals of what the last transition did, and pauses, at random moments.
// A second goroutine per endpoint sits in Poll and records every return.
// The endpoint's own debug log (a logging.Logger handed to NewEndpoint) gives
// the polling loop's steps and Scan's cached-or-full decision in a total
// order with the driver's records. Emitted per history: the timed trace (for
// replay through Model/Watch.v) and the observed history (for check_C42).
//
// Times are centiseconds since the endpoint was created. A history is
// discarded (and counted) when the process was starved (a 10 ms sleeper
// overslept by more than 400 ms). When a poll scan overlapped a Transition or
// an edit the order of their effects is not observable: such a history is not
// replayed through the model but its observations are still judged.
package main

import (
	"context"
	"encoding/json"
	"flag"
	"fmt"
	"os"
	"path/filepath"
	"sort"
	"strings"
	"sync"
	"sync/atomic"
	"time"

	"github.com/mutagen-io/mutagen/pkg/logging"
	"github.com/mutagen-io/mutagen/pkg/synchronization"
	"github.com/mutagen-io/mutagen/pkg/synchronization/core"

	"verifharness/internal/hx"
	"verifharness/internal/lepx"
)

// Op is one driver step.
type Op struct {
	K       string `json:"k"` // sleep scan trans bulk edit revert
	Ms      int    `json:"ms,omitempty"`
	Full    bool   `json:"full,omitempty"`
	Kind    string `json:"kind,omitempty"` // trans: create replace remove; edit: write remove
	Path    string `json:"p,omitempty"`
	Content string `json:"c,omitempty"`
	N       int    `json:"n,omitempty"` // bulk: number of files in the created directory
}

// Case is an initial root and a driver script.
type Case struct {
	Init map[string]string `json:"init"`
	// FullScan selects scan mode "full": acceleration is never available.
	FullScan bool `json:"fullscan,omitempty"`
	Ops      []Op `json:"ops"`
}

const (
	windowCs = 202 // polling interval 100 + coalescing 2 + slack 100
	slackCs  = 102 // strobe -> Poll return: coalescing 2 + slack 100
)

type tev struct {
	t    int
	coq  string
	fill func() string // for placeholders completed later
}

type recorder struct {
	mu        sync.Mutex
	t0        time.Time
	evs       []*tev
	pollOpen  bool
	busy      bool
	ambiguous bool
	pending   *tev // the Scan log line waiting for the driver's result
	lastPoll  time.Time // when the polling loop last began a scan
	obs       []string
	bad       string
}

func (r *recorder) now() int { return int(time.Since(r.t0) / (10 * time.Millisecond)) }

func (r *recorder) add(coq string) *tev {
	e := &tev{t: r.now(), coq: coq}
	r.evs = append(r.evs, e)
	return e
}

// Write receives one log line of the endpoint.
func (r *recorder) Write(p []byte) (int, error) {
	line := string(p)
	r.mu.Lock()
	defer r.mu.Unlock()
	switch {
	case strings.Contains(line, "Performing filesystem scan"):
		r.add("HPollBegin")
		r.pollOpen = true
		r.lastPoll = time.Now()
		if r.busy {
			r.ambiguous = true
		}
	case strings.Contains(line, "Accelerated scanning now available"):
		r.add("HPollOk")
		r.pollOpen = false
	case strings.Contains(line, "Scan failed"):
		r.add("HPollFail")
		r.pollOpen = false
	case strings.Contains(line, "No unignored modifications detected"):
		if r.pollOpen { // scan mode full: success is not logged separately
			r.add("HPollOk")
			r.pollOpen = false
		}
		r.add("HPollCmp false")
	case strings.Contains(line, "Modifications detected"):
		if r.pollOpen {
			r.add("HPollOk")
			r.pollOpen = false
		}
		r.add("HPollCmp true")
	case strings.Contains(line, "Performing accelerated scan with existing snapshot"):
		r.pending = r.add("")
		r.pending.coq = "cached"
	case strings.Contains(line, "Performing full scan"):
		r.pending = r.add("")
		r.pending.coq = "full"
	}
	return len(p), nil
}

func (r *recorder) begin() {
	r.mu.Lock()
	r.busy = true
	if r.pollOpen {
		r.ambiguous = true
	}
	r.mu.Unlock()
}

func (r *recorder) end(coq string, obs ...string) {
	r.mu.Lock()
	r.busy = false
	if coq != "" {
		r.add(coq)
	}
	r.obs = append(r.obs, obs...)
	r.mu.Unlock()
}

// entryKey / diskKey give the same canonical string for a snapshot and for an
// independently walked root.
func entryKey(e *core.Entry) string {
	var items []string
	var rec func(e *core.Entry, p string)
	rec = func(e *core.Entry, p string) {
		if e == nil {
			return
		}
		switch e.Kind {
		case core.EntryKind_Directory:
			items = append(items, p+"/")
			for n, c := range e.Contents {
				q := n
				if p != "" {
					q = p + "/" + n
				}
				rec(c, q)
			}
		case core.EntryKind_File:
			items = append(items, fmt.Sprintf("%s=%x", p, e.Digest))
		default:
			items = append(items, p+"?")
		}
	}
	rec(e, "")
	sort.Strings(items)
	return strings.Join(items, "|")
}

func diskKey(root string) string {
	var items []string
	filepath.Walk(root, func(p string, info os.FileInfo, err error) error {
		if err != nil {
			return nil
		}
		rel, _ := filepath.Rel(root, p)
		rel = filepath.ToSlash(rel)
		if rel == "." {
			rel = ""
		}
		if strings.HasPrefix(filepath.Base(p), ".mutagen-temporary-") {
			if info.IsDir() {
				return filepath.SkipDir
			}
			return nil
		}
		if info.IsDir() {
			items = append(items, rel+"/")
		} else if b, err := os.ReadFile(p); err == nil {
			items = append(items, fmt.Sprintf("%s=%x", rel, lepx.Sha1(b)))
		}
		return nil
	})
	sort.Strings(items)
	return strings.Join(items, "|")
}

type result struct {
	coq     string
	nt      bool
	tags    []string
	panic   string
	discard string
}

var (
	scratch *lepx.Scratch
	fixed   bool
	seq     int
	seqMu   sync.Mutex
)

func nextSession() string {
	seqMu.Lock()
	defer seqMu.Unlock()
	seq++
	return fmt.Sprintf("w%06d", seq)
}

func writeAtomic(root, rel string, content []byte, tmpdir string) {
	full := filepath.Join(root, filepath.FromSlash(rel))
	os.MkdirAll(filepath.Dir(full), 0o755)
	tmp, err := os.CreateTemp(tmpdir, "w")
	if err != nil {
		panic(err)
	}
	tmp.Write(content)
	tmp.Close()
	os.Chmod(tmp.Name(), 0o644)
	if err := os.Rename(tmp.Name(), full); err != nil {
		os.Remove(tmp.Name())
	}
}

func runCase(c Case) (res result) {
	defer func() {
		if r := recover(); r != nil {
			res.panic = fmt.Sprint(r)
		}
	}()
	session := nextSession()
	base := scratch.Dir(session)
	defer os.RemoveAll(base)
	root := filepath.Join(base, "root")
	src := filepath.Join(base, "src")
	tmpdir := filepath.Join(base, "tmp")
	for _, d := range []string{root, src, tmpdir} {
		os.MkdirAll(d, 0o755)
	}
	for p, content := range c.Init {
		writeAtomic(root, p, []byte(content), tmpdir)
	}
	ids := map[string]int{}
	idOf := func(key string) int {
		if id, ok := ids[key]; ok {
			return id
		}
		ids[key] = len(ids) + 1
		return ids[key]
	}
	cur := idOf(diskKey(root))
	c0 := cur

	rec := &recorder{}
	logger := logging.NewLogger(logging.LevelDebug, rec)
	cfg := &synchronization.Configuration{
		WatchMode:            synchronization.WatchMode_WatchModeForcePoll,
		WatchPollingInterval: 1,
		ScanMode:             synchronization.ScanMode_ScanModeAccelerated,
		StageMode:            synchronization.StageMode_StageModeMutagen,
	}
	if c.FullScan {
		cfg.ScanMode = synchronization.ScanMode_ScanModeFull
	}
	rec.t0 = time.Now()
	ep := lepx.NewEndpoint(logger, root, session, cfg, false)
	sep := lepx.NewEndpoint(nil, src, session+"src", &synchronization.Configuration{
		WatchMode: synchronization.WatchMode_WatchModeNoWatch}, true)
	ctx, cancel := context.WithCancel(context.Background())
	var wg sync.WaitGroup
	// Poll watcher
	wg.Add(1)
	go func() {
		defer wg.Done()
		for {
			ep.Poll(ctx)
			if ctx.Err() != nil {
				return
			}
			rec.mu.Lock()
			e := rec.add("HPollRet")
			rec.obs = append(rec.obs, fmt.Sprintf("XP %d", e.t))
			rec.mu.Unlock()
		}
	}()
	// starvation monitor
	var maxOver atomic.Int64
	wg.Add(1)
	go func() {
		defer wg.Done()
		for ctx.Err() == nil {
			t := time.Now()
			time.Sleep(10 * time.Millisecond)
			if over := int64(time.Since(t) - 10*time.Millisecond); over > maxOver.Load() {
				maxOver.Store(over)
			}
		}
	}()
	finish := func() {
		cancel()
		wg.Wait()
		ep.Shutdown()
		sep.Shutdown()
	}
	defer finish()

	bg := context.Background()
	tags := []string{}
	var lastSnap *core.Entry
	type undo struct {
		path    string
		content *string // nil = the path did not exist
	}
	var lastUndo *undo
	sawCached, sawRevert := false, false

	doScan := func(full bool) bool {
		rec.mu.Lock()
		t0 := rec.now()
		rec.pending = nil
		rec.mu.Unlock()
		snap, err, _ := ep.Scan(bg, nil, full)
		if err != nil {
			res.discard = "scan-error"
			return false
		}
		lastSnap = snap.Content
		id := idOf(entryKey(snap.Content))
		rec.mu.Lock()
		if rec.pending == nil {
			rec.bad = "Scan returned without a log line"
		} else {
			cached := rec.pending.coq == "cached"
			if cached {
				sawCached = true
				tags = append(tags, "scan:cached")
			} else {
				tags = append(tags, "scan:full")
			}
			rec.pending.coq = fmt.Sprintf("HScan %v %v %d", full, cached, id)
			rec.pending = nil
		}
		rec.obs = append(rec.obs, fmt.Sprintf("XS %d %d %d", t0, rec.now(), id))
		rec.mu.Unlock()
		return true
	}

	// the baseline: wait for the polling loop's first compare; edits before it
	// belong to the baseline and are not notified by design
	warmCs := -1
	for i := 0; i < 800 && warmCs < 0; i++ {
		rec.mu.Lock()
		for _, e := range rec.evs {
			if strings.HasPrefix(e.coq, "HPollCmp") {
				warmCs = e.t + 1
			}
		}
		rec.mu.Unlock()
		if warmCs < 0 {
			time.Sleep(10 * time.Millisecond)
		}
	}
	if warmCs < 0 {
		res.discard = "no-baseline"
	}
	for _, o := range c.Ops {
		if res.discard != "" {
			break
		}
		tags = append(tags, "op:"+o.K)
		switch o.K {
		case "sleep":
			time.Sleep(time.Duration(o.Ms) * time.Millisecond)
		case "scan":
			doScan(o.Full)
		case "trans":
			if !doScan(false) {
				break
			}
			full := filepath.Join(root, o.Path)
			old := lepx.At(lastSnap, o.Path)
			var nw *core.Entry
			var prev *string
			if b, err := os.ReadFile(full); err == nil {
				s := string(b)
				prev = &s
			}
			if o.Kind != "remove" {
				content := []byte(o.Content)
				nw = &core.Entry{Kind: core.EntryKind_File, Digest: lepx.Sha1(content)}
				paths, sigs, receiver, err := ep.Stage([]string{o.Path}, [][]byte{nw.Digest})
				if err != nil {
					panic("Stage: " + err.Error())
				}
				if receiver != nil {
					os.RemoveAll(filepath.Join(src, o.Path))
					writeAtomic(src, o.Path, content, tmpdir)
					if err := sep.Supply(paths, sigs, receiver); err != nil {
						panic("Supply: " + err.Error())
					}
				}
			}
			rec.begin()
			_, _, _, err := ep.Transition(bg, []*core.Change{{Path: o.Path, Old: old, New: nw}})
			if err != nil {
				panic("Transition: " + err.Error())
			}
			t := rec.now()
			id := idOf(diskKey(root))
			changed := id != cur
			if changed {
				cur = id
				lastUndo = &undo{path: o.Path, content: prev}
				tags = append(tags, "trans:changed")
				rec.end(fmt.Sprintf("HTrans [%d]", id), fmt.Sprintf("XD %d %d false", t, id), fmt.Sprintf("XT %d true", t))
			} else {
				tags = append(tags, "trans:nochange")
				rec.end("HTrans []", fmt.Sprintf("XT %d false", t))
			}
		case "rmdir":
			// Removal of a directory that gained a file the plan does not know
			// of (placed after the scan): the known contents go, the directory
			// stays. Followed at once by the Scan a controller would make.
			if !doScan(false) {
				break
			}
			oldDir := lepx.At(lastSnap, o.Path)
			if oldDir == nil || oldDir.Kind != core.EntryKind_Directory || len(oldDir.Contents) == 0 {
				continue
			}
			rec.begin()
			writeAtomic(root, o.Path+"/"+o.Content, []byte("not in the plan"), tmpdir)
			te := rec.now()
			ide := idOf(diskKey(root))
			if ide != cur {
				cur = ide
				rec.end(fmt.Sprintf("HEdit %d", ide), fmt.Sprintf("XD %d %d true", te, ide))
			} else {
				rec.end("")
			}
			rec.begin()
			if _, _, _, err := ep.Transition(bg, []*core.Change{{Path: o.Path, Old: oldDir}}); err != nil {
				panic("Transition: " + err.Error())
			}
			tr := rec.now()
			idr := idOf(diskKey(root))
			if idr != cur {
				cur = idr
				lastUndo = nil
				tags = append(tags, "rmdir:partial")
				rec.end(fmt.Sprintf("HTrans [%d]", idr), fmt.Sprintf("XD %d %d false", tr, idr), fmt.Sprintf("XT %d true", tr))
			} else {
				rec.end("HTrans []", fmt.Sprintf("XT %d false", tr))
			}
			doScan(false)
		case "bulk":
			// A transition that takes a while (a directory with many files),
			// started just before the polling loop's next tick so that a poll
			// scan runs while core.Transition is at work.
			if !doScan(false) {
				break
			}
			if lepx.At(lastSnap, o.Path) != nil {
				continue
			}
			dir := &core.Entry{Kind: core.EntryKind_Directory, Contents: map[string]*core.Entry{}}
			paths := make([]string, 0, o.N)
			digests := make([][]byte, 0, o.N)
			os.MkdirAll(filepath.Join(src, o.Path), 0o755)
			for i := 0; i < o.N; i++ {
				name := fmt.Sprintf("f%04d", i)
				content := []byte(fmt.Sprintf("%s %d", o.Content, i))
				d := lepx.Sha1(content)
				dir.Contents[name] = &core.Entry{Kind: core.EntryKind_File, Digest: d}
				paths = append(paths, o.Path+"/"+name)
				digests = append(digests, d)
				os.WriteFile(filepath.Join(src, o.Path, name), content, 0o644)
			}
			fp, sigs, receiver, err := ep.Stage(paths, digests)
			if err != nil {
				panic("Stage: " + err.Error())
			}
			if receiver != nil {
				if err := sep.Supply(fp, sigs, receiver); err != nil {
					panic("Supply: " + err.Error())
				}
			}
			rec.mu.Lock()
			last := rec.lastPoll
			rec.mu.Unlock()
			if !last.IsZero() {
				next := last.Add(time.Second)
				for next.Before(time.Now().Add(15 * time.Millisecond)) {
					next = next.Add(time.Second)
				}
				time.Sleep(time.Until(next.Add(-time.Duration(o.Ms) * time.Millisecond)))
			}
			rec.begin()
			if _, _, _, err := ep.Transition(bg, []*core.Change{{Path: o.Path, New: dir}}); err != nil {
				panic("Transition: " + err.Error())
			}
			t := rec.now()
			id := idOf(diskKey(root))
			if id != cur {
				cur = id
				lastUndo = nil
				tags = append(tags, "bulk:changed")
				rec.end(fmt.Sprintf("HTrans [%d]", id), fmt.Sprintf("XD %d %d false", t, id), fmt.Sprintf("XT %d true", t))
			} else {
				rec.end("HTrans []", fmt.Sprintf("XT %d false", t))
			}
			// what the controller does next: scan again
			doScan(false)
		case "edit", "revert":
			path, kind, content := o.Path, o.Kind, o.Content
			if o.K == "revert" {
				if lastUndo == nil {
					continue
				}
				path = lastUndo.path
				if lastUndo.content == nil {
					kind = "remove"
				} else {
					kind, content = "write", *lastUndo.content
				}
				lastUndo = nil
				sawRevert = true
			}
			rec.begin()
			if kind == "remove" {
				os.Remove(filepath.Join(root, path))
			} else {
				writeAtomic(root, path, []byte(content), tmpdir)
			}
			t := rec.now()
			id := idOf(diskKey(root))
			if id != cur {
				cur = id
				rec.end(fmt.Sprintf("HEdit %d", id), fmt.Sprintf("XD %d %d true", t, id))
				tags = append(tags, "edit:changed")
			} else {
				rec.end("")
			}
		}
	}
	// let the last window elapse
	time.Sleep(time.Duration(windowCs+8) * 10 * time.Millisecond)
	rec.mu.Lock()
	tend := rec.now()
	ambiguous, bad := rec.ambiguous, rec.bad
	trace := make([]string, 0, len(rec.evs))
	for _, e := range rec.evs {
		if e.coq == "cached" || e.coq == "full" || e.coq == "" {
			bad = "a Scan log line was never completed"
			continue
		}
		trace = append(trace, fmt.Sprintf("(%d, %s)", e.t, e.coq))
	}
	obs := append([]string(nil), rec.obs...)
	rec.mu.Unlock()
	if res.discard != "" {
		return
	}
	if bad != "" {
		panic("harness: " + bad)
	}
	if ambiguous {
		tags = append(tags, "overlap:not-replayed")
	}
	if time.Duration(maxOver.Load()) > 400*time.Millisecond {
		res.discard = "starved"
		return
	}
	// observations in chronological order: they were appended in real-time
	// order by the driver and the Poll watcher under one mutex
	if c.FullScan {
		tags = append(tags, "scanmode:full")
	}
	res.coq = fmt.Sprintf("(%v, %v, %v, %d, (%d, %d, %d), %d,\n  %s,\n  %s)", fixed, !c.FullScan, !ambiguous, c0, windowCs, warmCs, tend, slackCs,
		hx.List(trace), hx.List(obsCoq(obs)))
	res.nt = sawCached && sawRevert
	res.tags = tags
	return
}

func obsCoq(obs []string) []string {
	out := make([]string, len(obs))
	for i, o := range obs {
		out[i] = "(" + o + ")"
	}
	return out
}

// ---------- generation ----------

var names = []string{"f", "g", "h"}

func genCase(r interface{ Intn(int) int }) Case {
	c := Case{Init: map[string]string{}, FullScan: r.Intn(4) == 0}
	for _, n := range names {
		if r.Intn(3) == 0 {
			c.Init[n] = fmt.Sprintf("init %s", n)
		}
	}
	hasDir := r.Intn(3) == 0
	if hasDir {
		c.Init["dd/x"] = "in a directory"
		if r.Intn(2) == 0 {
			c.Init["dd/y"] = "also there"
		}
	}
	c.Ops = append(c.Ops, Op{K: "sleep", Ms: 350 + r.Intn(500)})
	n := 3 + r.Intn(5)
	uniq := 0
	bulked := false
	trans := func() Op {
		uniq++
		return Op{K: "trans", Kind: []string{"create", "create", "replace", "remove"}[r.Intn(4)],
			Path: names[r.Intn(len(names))], Content: fmt.Sprintf("synced %d", uniq)}
	}
	for i := 0; i < n; i++ {
		switch r.Intn(10) {
		case 0, 1:
			c.Ops = append(c.Ops, Op{K: "scan", Full: r.Intn(4) == 0})
		case 2, 3, 4:
			c.Ops = append(c.Ops, trans())
			if r.Intn(2) == 0 {
				// the reversal pattern: let the strobe be delivered, rescan, undo externally
				c.Ops = append(c.Ops, Op{K: "sleep", Ms: 60 + r.Intn(200)}, Op{K: "scan"})
				if r.Intn(3) != 0 {
					c.Ops = append(c.Ops, Op{K: "revert"})
				}
			}
		case 5, 6:
			uniq++
			if r.Intn(3) == 0 {
				c.Ops = append(c.Ops, Op{K: "edit", Kind: "remove", Path: names[r.Intn(len(names))]})
			} else {
				c.Ops = append(c.Ops, Op{K: "edit", Kind: "write", Path: names[r.Intn(len(names))],
					Content: fmt.Sprintf("edited %d", uniq)})
			}
		case 7:
			c.Ops = append(c.Ops, Op{K: "revert"})
		case 9:
			if hasDir {
				uniq++
				c.Ops = append(c.Ops, Op{K: "rmdir", Path: "dd", Content: fmt.Sprintf("extra%d", uniq)})
			}
		case 8:
			if !bulked && r.Intn(2) == 0 {
				bulked = true
				uniq++
				c.Ops = append(c.Ops, Op{K: "bulk", Path: "bulk", N: 600 + r.Intn(900),
					Content: fmt.Sprintf("bulk %d", uniq), Ms: 2 + r.Intn(25)})
			}
		default:
		}
		c.Ops = append(c.Ops, Op{K: "sleep", Ms: r.Intn(900)})
	}
	return c
}

const header = "From Coq Require Import List Bool Arith NArith.\nImport ListNotations.\nFrom Mv Require Import Model.Watch Model.WatchObs Harness.WatchH."

func main() {
	flag.BoolVar(&fixed, "fixed", false, "expect the repaired polling loop (pollNotifyForced)")
	cfg := hx.Parse()
	if strings.Contains(os.Getenv("VERIF_FIXED"), "C42") {
		fixed = true
	}
	scratch = lepx.NewScratch()
	defer scratch.Remove()
	w := hx.NewWriter(cfg, header, "wcase", "watch_failures", 100)
	w.Rule = "a case = one history of a real force-poll endpoint (1 s interval): the timed trace of its polling loop's log lines, Scan results, Transition outcomes, external edits and Poll returns, plus the observed history judged by check_C42; distinct = distinct Coq terms; non-trivial = at least one Scan served from the cached snapshot and at least one external reversal of a transition"
	discards := map[string]int{}
	emit := func(c Case, origin string, r result) {
		if w.Aborted {
			return
		}
		if r.discard != "" && r.panic == "" {
			discards[r.discard]++
			return
		}
		if w.Guard(c, 5*time.Second, func() {
			if r.panic != "" {
				panic(r.panic)
			}
		}) {
			w.Add(hx.Case{Coq: r.coq, Replay: c, Nontrivial: r.nt, Tags: r.tags, Origin: origin})
		}
	}
	runAll := func(cases []Case, origin string, par int) {
		results := make([]result, len(cases))
		var wg sync.WaitGroup
		sem := make(chan struct{}, par)
		for i := range cases {
			wg.Add(1)
			sem <- struct{}{}
			go func(i int) {
				defer wg.Done()
				defer func() { <-sem }()
				done := make(chan result, 1)
				go func() { done <- runCase(cases[i]) }()
				select {
				case r := <-done:
					results[i] = r
				case <-time.After(60 * time.Second):
					results[i] = result{panic: "hang: history did not finish within 60s"}
				}
			}(i)
		}
		wg.Wait()
		for i := range cases {
			emit(cases[i], origin, results[i])
		}
	}
	if cfg.Replay != "" {
		b, err := os.ReadFile(cfg.Replay)
		if err != nil {
			panic(err)
		}
		var wrapper struct {
			Case Case `json:"case"`
		}
		if err := json.Unmarshal(b, &wrapper); err != nil {
			panic(err)
		}
		runAll([]Case{wrapper.Case}, "replay", 1)
		w.Close()
		return
	}
	var corpus []Case
	for _, raw := range hx.LoadCorpus(cfg.Corpus) {
		var c Case
		if json.Unmarshal(raw, &c) == nil && len(c.Ops) > 0 {
			corpus = append(corpus, c)
		}
	}
	runAll(corpus, "corpus", 8)
	n, par := 360, 120
	if cfg.Thorough() {
		n, par = 6000, 150
	}
	for done := 0; done < n; {
		k := par * 3
		if n-done < k {
			k = n - done
		}
		batch := make([]Case, k)
		for i := range batch {
			batch[i] = genCase(cfg.Rand)
		}
		runAll(batch, "random", par)
		done += k
	}
	w.Extra["discarded"] = discards
	w.Extra["traces_validated_against_impl"] = w.Total()
	w.Close()
	fmt.Printf("cases %d discarded %v\n", w.Total(), discards)
}
