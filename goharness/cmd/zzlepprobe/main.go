package main

import (
	"context"
	"crypto/sha1"
	"fmt"
	"os"
	"path/filepath"
	"time"

	"github.com/mutagen-io/mutagen/pkg/synchronization"
	"github.com/mutagen-io/mutagen/pkg/synchronization/core"
	"github.com/mutagen-io/mutagen/pkg/synchronization/endpoint/local"
	"github.com/mutagen-io/mutagen/pkg/synchronization/rsync"
)

func main() {
	tmp, _ := os.MkdirTemp("", "verif-")
	defer os.RemoveAll(tmp)
	os.Setenv("MUTAGEN_DATA_DIRECTORY", filepath.Join(tmp, "data"))
	root := filepath.Join(tmp, "root")
	src := filepath.Join(tmp, "src")
	os.MkdirAll(root, 0o755)
	os.MkdirAll(src, 0o755)
	content := []byte("hello world")
	os.WriteFile(filepath.Join(src, "f"), content, 0o644)
	cfg := &synchronization.Configuration{
		WatchMode:            synchronization.WatchMode_WatchModeForcePoll,
		WatchPollingInterval: 1,
		ScanMode:             synchronization.ScanMode_ScanModeAccelerated,
		StageMode:            synchronization.StageMode_StageModeMutagen,
	}
	t0 := time.Now()
	el := func() string { return fmt.Sprintf("[%4dms]", time.Since(t0).Milliseconds()) }
	ep, err := local.NewEndpoint(nil, root, "sess1", synchronization.Version_Version1, cfg, false)
	if err != nil {
		panic(err)
	}
	sep, err := local.NewEndpoint(nil, src, "sess1", synchronization.Version_Version1, &synchronization.Configuration{WatchMode: synchronization.WatchMode_WatchModeNoWatch}, true)
	if err != nil {
		panic(err)
	}
	time.Sleep(100 * time.Millisecond)
	ctx := context.Background()
	snap, err, _ := ep.Scan(ctx, nil, false)
	fmt.Println(el(), "scan1", snap.Content.Count(), err)
	d := sha1.Sum(content)
	paths, sigs, recv, err := ep.Stage([]string{"f"}, [][]byte{d[:]})
	fmt.Println(el(), "stage", paths, err)
	err = sep.Supply(paths, sigs, recv)
	fmt.Println(el(), "supply", err)
	_ = rsync.Transmit
	newEntry := &core.Entry{Kind: core.EntryKind_Directory, Contents: map[string]*core.Entry{"f": {Kind: core.EntryKind_File, Digest: d[:]}}}
	_ = newEntry
	res, probs, missing, err := ep.Transition(ctx, []*core.Change{{Path: "f", Old: nil, New: &core.Entry{Kind: core.EntryKind_File, Digest: d[:]}}})
	fmt.Println(el(), "transition", res, probs, missing, err)
	// controller: Poll returns due to strobe, then Scan
	pctx, cancel := context.WithTimeout(ctx, 3*time.Second)
	ep.Poll(pctx)
	fmt.Println(el(), "poll returned, timedout=", pctx.Err() != nil)
	cancel()
	snap, err, _ = ep.Scan(ctx, nil, false)
	fmt.Println(el(), "scan2 count", snap.Content.Count(), err)
	// external reversal
	os.Remove(filepath.Join(root, "f"))
	fmt.Println(el(), "external: removed f")
	pctx, cancel = context.WithTimeout(ctx, 3500*time.Millisecond)
	ep.Poll(pctx)
	fmt.Println(el(), "poll returned, timedout=", pctx.Err() != nil)
	cancel()
	snap, err, _ = ep.Scan(ctx, nil, false)
	fmt.Println(el(), "scan3 (cached?) count", snap.Content.Count(), err)
	ep.Shutdown()
	sep.Shutdown()
}
