module verifharness

go 1.25.0

require (
	github.com/mutagen-io/mutagen v0.0.0
	github.com/Microsoft/go-winio v0.6.2
	github.com/bmatcuk/doublestar/v4 v4.10.0
	github.com/dustin/go-humanize v1.0.1
	github.com/eknkc/basex v1.0.1
	github.com/fatih/color v1.19.0
	github.com/fsnotify/fsevents v0.2.0
	github.com/google/go-cmp v0.7.0
	github.com/google/uuid v1.6.0
	github.com/hectane/go-acl v0.0.0-20230122075934-ca0b05cb1adb
	github.com/klauspost/compress v1.18.5
	github.com/mattn/go-isatty v0.0.21
	github.com/mutagen-io/extstat v0.0.0-20210224131814-32fa3f057fa8
	github.com/mutagen-io/gopass v0.0.0-20230214181532-d4b7cdfe054c
	github.com/spf13/cobra v1.10.2
	github.com/spf13/pflag v1.0.10
	github.com/zeebo/xxh3 v1.1.0
	go.yaml.in/yaml/v4 v4.0.0-rc.4
	golang.org/x/net v0.53.0
	golang.org/x/sys v0.43.0
	golang.org/x/text v0.36.0
	google.golang.org/grpc v1.80.0
	google.golang.org/grpc/cmd/protoc-gen-go-grpc v1.6.1
	google.golang.org/protobuf v1.36.11
	github.com/inconshreveable/mousetrap v1.1.0 // indirect
	github.com/klauspost/cpuid/v2 v2.2.10 // indirect
	github.com/mattn/go-colorable v0.1.14 // indirect
	golang.org/x/term v0.42.0 // indirect
	google.golang.org/genproto/googleapis/rpc v0.0.0-20260120221211-b8f7ae30c516 // indirect
)

replace github.com/mutagen-io/mutagen => /repo

