// Package bstr renders Go strings (arbitrary bytes) as Coq `list byte` terms
// and keeps them intact through JSON replay files. Used by the symlink, url
// and argv harnesses.
package bstr

import (
	"fmt"
	"strings"
	"unicode/utf8"
)

// CoqString renders a Go string (any bytes) as a Coq `string` term: printable
// ASCII without a double quote is a literal, anything else goes through
// Common.Bytes.bs.
func CoqString(s string) string {
	plain := true
	for i := 0; i < len(s); i++ {
		if s[i] < 0x20 || s[i] > 0x7e || s[i] == '"' {
			plain = false
			break
		}
	}
	if plain {
		return `"` + s + `"`
	}
	var sb strings.Builder
	sb.WriteString("(bs [")
	for i := 0; i < len(s); i++ {
		if i > 0 {
			sb.WriteByte(';')
		}
		fmt.Fprintf(&sb, "%d", s[i])
	}
	sb.WriteString("])")
	return sb.String()
}

// BStr renders a Go string as a Coq `list byte` term through a function
// `B : string -> list byte` that the harness's Coq side defines.
func B(s string) string {
	return "(B " + CoqString(s) + ")"
}

// BStrs renders a list of strings as a Coq list of `list byte` terms.
func Bs(ss []string) string {
	items := make([]string, len(ss))
	for i, s := range ss {
		items[i] = B(s)
	}
	return "[" + strings.Join(items, "; ") + "]"
}

// JStr is a string that survives JSON even when it is not valid UTF-8: it is
// stored as text when it is valid UTF-8 and as a byte list otherwise.
type JStr struct {
	S string `json:"s,omitempty"`
	B []int  `json:"b,omitempty"`
}

// J wraps a Go string.
func J(s string) JStr {
	if utf8.ValidString(s) {
		return JStr{S: s}
	}
	b := make([]int, len(s))
	for i := 0; i < len(s); i++ {
		b[i] = int(s[i])
	}
	return JStr{B: b}
}

// Get unwraps.
func (j JStr) Get() string {
	if len(j.B) > 0 {
		b := make([]byte, len(j.B))
		for i, v := range j.B {
			b[i] = byte(v)
		}
		return string(b)
	}
	return j.S
}
