// Package coretree renders core.Entry trees, changes and conflicts as Coq
// terms of Model/Entry.v, converts them to and from a compact JSON form for
// replays, and generates trees (small exhaustive scopes and seeded random).
package coretree

import (
	"fmt"
	"math/rand"
	"sort"
	"strings"

	"github.com/mutagen-io/mutagen/pkg/synchronization/core"
)

// Str renders a Go string as a Coq string term. Printable ASCII without a
// double quote is a literal; anything else goes through Common.Bytes.bs.
func Str(s string) string {
	plain := true
	for i := 0; i < len(s); i++ {
		if s[i] < 0x20 || s[i] > 0x7e || s[i] == '"' {
			plain = false
			break
		}
	}
	if plain {
		return `"` + s + `"`
	}
	var sb strings.Builder
	sb.WriteString("(bs [")
	for i := 0; i < len(s); i++ {
		if i > 0 {
			sb.WriteByte(';')
		}
		fmt.Fprintf(&sb, "%d", s[i])
	}
	sb.WriteString("])")
	return sb.String()
}

// Path renders a slash-separated path as a Coq list of names ("" = []).
func Path(p string) string {
	if p == "" {
		return "[]"
	}
	parts := strings.Split(p, "/")
	items := make([]string, len(parts))
	for i, c := range parts {
		items[i] = Str(c)
	}
	return "[" + strings.Join(items, "; ") + "]"
}

func sortedNames(m map[string]*core.Entry) []string {
	names := make([]string, 0, len(m))
	for n := range m {
		names = append(names, n)
	}
	sort.Strings(names)
	return names
}

func entryBody(e *core.Entry) string {
	if e == nil {
		return "ENilChildNotRepresentable"
	}
	contents := func() string {
		names := sortedNames(e.Contents)
		items := make([]string, len(names))
		for i, n := range names {
			items[i] = "(" + Str(n) + ", " + entryBody(e.Contents[n]) + ")"
		}
		return "[" + strings.Join(items, "; ") + "]"
	}
	switch e.Kind {
	case core.EntryKind_Directory:
		return "EDir " + contents()
	case core.EntryKind_File:
		x := "false"
		if e.Executable {
			x = "true"
		}
		return "EFile " + x + " " + Str(string(e.Digest))
	case core.EntryKind_SymbolicLink:
		return "ELink " + Str(e.Target)
	case core.EntryKind_Untracked:
		return "EUntracked"
	case core.EntryKind_Problematic:
		return "EProblem " + Str(e.Problem)
	case core.EntryKind_PhantomDirectory:
		return "EPhantom " + contents()
	default:
		return fmt.Sprintf("EUnknownKind%d", int(e.Kind))
	}
}

// Entry renders a possibly-nil entry as a Coq oentry term. Child entries that
// are nil inside a contents map are not representable and render as an
// identifier the Coq side does not know (a deliberate evaluation failure).
func Entry(e *core.Entry) string {
	if e == nil {
		return "None"
	}
	return "(Some (" + entryBody(e) + "))"
}

// Change renders a change as a Coq term (mk path old new).
func Change(c *core.Change) string {
	return "(mk " + Path(c.Path) + " " + Entry(c.Old) + " " + Entry(c.New) + ")"
}

// Changes renders a change list in the order given.
func Changes(cs []*core.Change) string {
	items := make([]string, len(cs))
	for i, c := range cs {
		items[i] = Change(c)
	}
	return "[" + strings.Join(items, "; ") + "]"
}

// Conflicts renders a conflict list in the order given.
func Conflicts(cs []*core.Conflict) string {
	items := make([]string, len(cs))
	for i, c := range cs {
		items[i] = "(mkc " + Path(c.Root) + " " + Changes(c.AlphaChanges) + " " + Changes(c.BetaChanges) + ")"
	}
	return "[" + strings.Join(items, "; ") + "]"
}

// ---------- JSON form ----------

// J is the JSON form of an entry (nil pointer = nil entry).
type J struct {
	K string        `json:"k"`           // dir file link untracked problem phantom
	X bool          `json:"x,omitempty"` // executable
	D string        `json:"d,omitempty"` // digest (raw bytes as string)
	T string        `json:"t,omitempty"` // target
	P string        `json:"p,omitempty"` // problem
	C map[string]*J `json:"c,omitempty"` // contents
}

// ToJ converts an entry to its JSON form.
func ToJ(e *core.Entry) *J {
	if e == nil {
		return nil
	}
	j := &J{X: e.Executable, D: string(e.Digest), T: e.Target, P: e.Problem}
	switch e.Kind {
	case core.EntryKind_Directory:
		j.K = "dir"
	case core.EntryKind_File:
		j.K = "file"
	case core.EntryKind_SymbolicLink:
		j.K = "link"
	case core.EntryKind_Untracked:
		j.K = "untracked"
	case core.EntryKind_Problematic:
		j.K = "problem"
	case core.EntryKind_PhantomDirectory:
		j.K = "phantom"
	}
	if len(e.Contents) > 0 {
		j.C = map[string]*J{}
		for n, c := range e.Contents {
			j.C[n] = ToJ(c)
		}
	}
	return j
}

// FromJ converts the JSON form back to an entry.
func FromJ(j *J) *core.Entry {
	if j == nil {
		return nil
	}
	e := &core.Entry{Executable: j.X, Target: j.T, Problem: j.P}
	if j.D != "" {
		e.Digest = []byte(j.D)
	}
	switch j.K {
	case "dir":
		e.Kind = core.EntryKind_Directory
	case "file":
		e.Kind = core.EntryKind_File
	case "link":
		e.Kind = core.EntryKind_SymbolicLink
	case "untracked":
		e.Kind = core.EntryKind_Untracked
	case "problem":
		e.Kind = core.EntryKind_Problematic
	case "phantom":
		e.Kind = core.EntryKind_PhantomDirectory
	}
	if len(j.C) > 0 {
		e.Contents = map[string]*core.Entry{}
		for n, c := range j.C {
			e.Contents[n] = FromJ(c)
		}
	}
	return e
}

// ---------- constructors ----------

// File makes a file entry.
func File(digest string, exec bool) *core.Entry {
	return &core.Entry{Kind: core.EntryKind_File, Digest: []byte(digest), Executable: exec}
}

// Link makes a symbolic link entry.
func Link(target string) *core.Entry {
	return &core.Entry{Kind: core.EntryKind_SymbolicLink, Target: target}
}

// Untracked makes an untracked entry.
func Untracked() *core.Entry { return &core.Entry{Kind: core.EntryKind_Untracked} }

// Problem makes a problematic entry.
func Problem(msg string) *core.Entry {
	return &core.Entry{Kind: core.EntryKind_Problematic, Problem: msg}
}

// Dir makes a directory from name/entry pairs (nil entries are skipped).
func Dir(kv ...any) *core.Entry {
	e := &core.Entry{Kind: core.EntryKind_Directory}
	for i := 0; i+1 < len(kv); i += 2 {
		if c, _ := kv[i+1].(*core.Entry); c != nil {
			if e.Contents == nil {
				e.Contents = map[string]*core.Entry{}
			}
			e.Contents[kv[i].(string)] = c
		}
	}
	return e
}

// Phantom makes a phantom directory.
func Phantom(kv ...any) *core.Entry {
	e := Dir(kv...)
	e.Kind = core.EntryKind_PhantomDirectory
	return e
}

// ---------- small exhaustive scope ----------

// SmallScope returns the enumerated scope used by the core-family harnesses:
// sides (every entry kind) and ancestors (synchronizable only), over names
// {a,b} at level 1 and {c} at level 2.
func SmallScope() (sides, ancestors []*core.Entry) {
	syncLeaves := []*core.Entry{File("d1", false), File("d2", false), File("d1", true), Link("t")}
	unsyncLeaves := []*core.Entry{Untracked(), Problem("bad")}
	lvl2Sync := []*core.Entry{Dir(), Dir("c", File("d1", false)), Dir("c", File("d2", false))}
	lvl2Any := append(append([]*core.Entry{}, lvl2Sync...), Dir("c", Untracked()))
	var childSync, childAny []*core.Entry
	childSync = append(childSync, nil)
	childSync = append(childSync, syncLeaves...)
	childSync = append(childSync, lvl2Sync...)
	childAny = append(childAny, nil)
	childAny = append(childAny, syncLeaves...)
	childAny = append(childAny, unsyncLeaves...)
	childAny = append(childAny, lvl2Any...)
	ancestors = append(ancestors, nil)
	ancestors = append(ancestors, syncLeaves...)
	for _, a := range childSync {
		for _, b := range childSync {
			ancestors = append(ancestors, Dir("a", a, "b", b))
		}
	}
	sides = append(sides, nil)
	sides = append(sides, syncLeaves...)
	sides = append(sides, unsyncLeaves...)
	for _, a := range childAny {
		for _, b := range childAny {
			sides = append(sides, Dir("a", a, "b", b))
		}
	}
	return
}

// ---------- random trees ----------

var names = []string{"a", "b", "c", "d", "e"}

// RandomEntry generates a random entry of bounded depth. If syncOnly is set it
// contains only synchronizable kinds.
func RandomEntry(r *rand.Rand, depth int, syncOnly bool) *core.Entry {
	k := r.Intn(10)
	if depth <= 0 && k < 4 {
		k = 4 + r.Intn(6)
	}
	switch {
	case k < 4:
		e := Dir()
		n := r.Intn(4)
		for i := 0; i < n; i++ {
			if c := RandomEntry(r, depth-1, syncOnly); c != nil {
				if e.Contents == nil {
					e.Contents = map[string]*core.Entry{}
				}
				e.Contents[names[r.Intn(len(names))]] = c
			}
		}
		return e
	case k < 7:
		return File([]string{"d1", "d2", "d3"}[r.Intn(3)], r.Intn(4) == 0)
	case k < 8:
		return Link([]string{"t", "u"}[r.Intn(2)])
	case k < 9:
		if syncOnly {
			return File("d1", false)
		}
		if r.Intn(3) == 0 {
			return Problem("bad")
		}
		return Untracked()
	default:
		return File("d4", false)
	}
}

// Mutate returns a deep copy of e with a few random edits (deletions,
// replacements, insertions); with unsync set, edits may introduce untracked
// or problematic content.
func Mutate(r *rand.Rand, e *core.Entry, depth int, unsync bool) *core.Entry {
	if e == nil {
		if r.Intn(3) == 0 {
			return RandomEntry(r, depth, !unsync)
		}
		return nil
	}
	switch r.Intn(12) {
	case 0:
		return nil
	case 1:
		return RandomEntry(r, depth, !unsync)
	}
	c := e.Copy(core.EntryCopyBehaviorShallow)
	if c.Kind == core.EntryKind_Directory {
		if len(e.Contents) > 0 {
			c.Contents = map[string]*core.Entry{}
			for n, ch := range e.Contents {
				if m := Mutate(r, ch, depth-1, unsync); m != nil {
					c.Contents[n] = m
				}
			}
			if len(c.Contents) == 0 {
				c.Contents = nil
			}
		}
		if r.Intn(4) == 0 {
			if c.Contents == nil {
				c.Contents = map[string]*core.Entry{}
			}
			c.Contents[names[r.Intn(len(names))]] = RandomEntry(r, depth-1, !unsync)
		}
	} else if c.Kind == core.EntryKind_File && r.Intn(6) == 0 {
		c.Executable = !c.Executable
	}
	return c
}
