package hx

import "strings"

const hexDigits = "0123456789abcdef"

// ByteCtors prints a byte slice as a Coq `list Byte.byte` built from the
// constructors x00..xff of Coq.Init.Byte (identifiers parse far faster than
// number literals, which matters for payload-carrying trace cases).
func ByteCtors(b []byte) string {
	var sb strings.Builder
	sb.Grow(2 + 4*len(b))
	sb.WriteByte('[')
	for i, v := range b {
		if i > 0 {
			sb.WriteByte(';')
		}
		sb.WriteByte('x')
		sb.WriteByte(hexDigits[v>>4])
		sb.WriteByte(hexDigits[v&15])
	}
	sb.WriteByte(']')
	return sb.String()
}
