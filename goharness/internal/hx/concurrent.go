package hx

import (
	"fmt"
	"runtime/debug"
	"time"
)

// RunGuarded runs f under a watchdog without touching a Writer, so that many
// cases (trace-validation scenarios that spend most of their time waiting) can
// run concurrently. It returns kind "" if f returned, "panic" or "hang"
// otherwise; the caller reports the latter with Writer.RecordCrash from the
// goroutine that owns the Writer.
func RunGuarded(limit time.Duration, f func()) (kind, detail string) {
	done := make(chan string, 1)
	go func() {
		defer func() {
			if r := recover(); r != nil {
				done <- fmt.Sprintf("panic: %v\n%s", r, debug.Stack())
				return
			}
			done <- ""
		}()
		f()
	}()
	select {
	case msg := <-done:
		if msg == "" {
			return "", ""
		}
		if len(msg) > 1500 {
			msg = msg[:1500]
		}
		return "panic", msg
	case <-time.After(limit):
		return "hang", fmt.Sprintf("no return within %v", limit)
	}
}

// RecordCrash records a panic or hang observed by RunGuarded exactly as Guard
// would have (meta.json "crashes"; a hang sets Aborted).
func (w *Writer) RecordCrash(kind, detail string, replay any) {
	if len(w.crashes) < 20 {
		w.crashes = append(w.crashes, map[string]any{"kind": kind, "detail": detail, "case": replay})
	}
	if kind == "hang" {
		w.Aborted = true
	}
}
