package hx

// SetPerShard changes the shard size for the cases added from now on (the
// current shard is closed first). Used by harnesses that mix a few expensive
// cases (recorded histories) with many cheap ones.
func (w *Writer) SetPerShard(n int) {
	if w.f != nil {
		w.closeShard()
	}
	w.perShard = n
}
