// Package hx holds what every correspondence harness shares: command-line
// conventions, the seeded PRNG, and the writer that turns cases into sharded
// Coq files (cases_<k>.v), a cases.jsonl for replays and a meta.json for the
// evidence file.
package hx

import (
	"bufio"
	"encoding/json"
	"flag"
	"fmt"
	"hash/fnv"
	"math/rand"
	"os"
	"path/filepath"
	"runtime/debug"
	"sort"
	"strings"
	"time"
)

// Config is the parsed command line shared by all harnesses.
type Config struct {
	Tier   string
	Seed   int64
	Out    string
	Corpus string
	Replay string
	Rand   *rand.Rand
}

// Parse parses the standard flags.
func Parse() *Config {
	c := &Config{}
	flag.StringVar(&c.Tier, "tier", "quick", "quick|thorough")
	flag.Int64Var(&c.Seed, "seed", 1, "PRNG seed")
	flag.StringVar(&c.Out, "out", "", "output directory")
	flag.StringVar(&c.Corpus, "corpus", "", "corpus directory (one case per file or line)")
	flag.StringVar(&c.Replay, "replay", "", "replay file (JSON with field case)")
	flag.Parse()
	if c.Out == "" {
		fmt.Fprintln(os.Stderr, "missing -out")
		os.Exit(2)
	}
	c.Rand = rand.New(rand.NewSource(c.Seed))
	return c
}

// Thorough reports whether the thorough tier was requested.
func (c *Config) Thorough() bool { return c.Tier == "thorough" }

// Case is one correspondence case.
type Case struct {
	// Coq is the Gallina term for the case (input and implementation output).
	Coq string
	// Replay is a self-contained description from which the harness can
	// regenerate the case (stored in cases.jsonl and in replay files).
	Replay any
	// Nontrivial says whether the case counts as non-trivial by the harness's
	// stated rule.
	Nontrivial bool
	// Tags are distribution labels (operation kinds, error kinds, sizes).
	Tags []string
	// Origin is corpus|exhaustive|random|malformed.
	Origin string
}

// Writer accumulates cases into shards.
type Writer struct {
	cfg       *Config
	header    string
	caseType  string
	failFn    string
	perShard  int
	shard     int
	inShard   int
	total     int
	f         *os.File
	w         *bufio.Writer
	jl        *bufio.Writer
	jlf       *os.File
	seen      map[uint64]struct{}
	distinct  int
	nontriv   int
	dist      map[string]int
	origins   map[string]int
	samples   []string
	Rule      string
	Extra     map[string]any
	sampleMod int
	offsets   []int
	crashes   []map[string]any
	// Aborted is set once a case hung: the leaked goroutine may spin, so the
	// harness should stop generating cases.
	Aborted bool
}

// NewWriter creates a shard writer. header is the Coq preamble (Require
// lines), caseType the Coq type of one case, failFn the Coq function
// `nat -> list caseType -> list (nat * nat)` that returns (index, verdict)
// for every failing case.
func NewWriter(cfg *Config, header, caseType, failFn string, perShard int) *Writer {
	if err := os.MkdirAll(cfg.Out, 0o755); err != nil {
		panic(err)
	}
	jlf, err := os.Create(filepath.Join(cfg.Out, "cases.jsonl"))
	if err != nil {
		panic(err)
	}
	return &Writer{cfg: cfg, header: header, caseType: caseType, failFn: failFn,
		perShard: perShard, seen: map[uint64]struct{}{}, dist: map[string]int{},
		origins: map[string]int{}, jlf: jlf, jl: bufio.NewWriterSize(jlf, 1<<20),
		Extra: map[string]any{}, sampleMod: 1}
}

func (w *Writer) open() {
	name := filepath.Join(w.cfg.Out, fmt.Sprintf("cases_%d.v", w.shard))
	f, err := os.Create(name)
	if err != nil {
		panic(err)
	}
	w.f = f
	w.w = bufio.NewWriterSize(f, 1<<20)
	fmt.Fprintf(w.w, "%s\nDefinition cases : list (%s) := [\n", w.header, w.caseType)
	w.inShard = 0
}

func (w *Writer) closeShard() {
	if w.f == nil {
		return
	}
	fmt.Fprintf(w.w, "\n].\nDefinition M := Eval vm_compute in %s 0 cases.\nPrint M.\n", w.failFn)
	w.offsets = append(w.offsets, w.total-w.inShard)
	w.w.Flush()
	w.f.Close()
	w.f = nil
	w.shard++
}

// Add appends a case; exact duplicates (same Coq term) are counted once in
// the distinct counters but are still evaluated.
func (w *Writer) Add(c Case) {
	if w.f == nil {
		w.open()
	}
	if w.inShard > 0 {
		w.w.WriteString(";\n")
	}
	w.w.WriteString(c.Coq)
	h := fnv.New64a()
	h.Write([]byte(c.Coq))
	k := h.Sum64()
	if _, dup := w.seen[k]; !dup {
		w.seen[k] = struct{}{}
		w.distinct++
		if c.Nontrivial {
			w.nontriv++
		}
	}
	for _, t := range c.Tags {
		w.dist[t]++
	}
	w.origins[c.Origin]++
	rec, _ := json.Marshal(map[string]any{"index": w.total, "origin": c.Origin, "case": c.Replay})
	w.jl.Write(rec)
	w.jl.WriteByte('\n')
	// keep a few literal samples: first of each origin, plus sparse later ones
	if len(w.samples) < 6 && (w.origins[c.Origin] == 1 || (c.Nontrivial && w.total%w.sampleMod == 0)) {
		s := c.Coq
		if len(s) > 600 {
			s = s[:600] + "…"
		}
		w.samples = append(w.samples, s)
		w.sampleMod *= 7
	}
	w.total++
	w.inShard++
	if w.inShard >= w.perShard {
		w.closeShard()
	}
}

// Guard runs one case of the implementation under a watchdog. A panic or a
// hang (no return within the limit) of the code under test is itself a failing
// input: it is recorded in meta.json under "crashes" with the replay form of
// the case, and the check reports it as a violation. Guard returns false in
// that case; after a hang the caller should stop (w.Aborted is set).
func (w *Writer) Guard(replay any, limit time.Duration, f func()) bool {
	done := make(chan string, 1)
	go func() {
		defer func() {
			if r := recover(); r != nil {
				done <- fmt.Sprintf("panic: %v\n%s", r, debug.Stack())
				return
			}
			done <- ""
		}()
		f()
	}()
	select {
	case msg := <-done:
		if msg == "" {
			return true
		}
		if len(msg) > 1500 {
			msg = msg[:1500]
		}
		if len(w.crashes) < 20 {
			w.crashes = append(w.crashes, map[string]any{"kind": "panic", "detail": msg, "case": replay})
		}
		return false
	case <-time.After(limit):
		w.crashes = append(w.crashes, map[string]any{"kind": "hang", "detail": fmt.Sprintf("no return within %v", limit), "case": replay})
		w.Aborted = true
		return false
	}
}

// Total returns the number of cases added so far.
func (w *Writer) Total() int { return w.total }

// Close finishes the last shard and writes meta.json.
func (w *Writer) Close() {
	w.closeShard()
	w.jl.Flush()
	w.jlf.Close()
	keys := make([]string, 0, len(w.dist))
	for k := range w.dist {
		keys = append(keys, k)
	}
	sort.Strings(keys)
	dist := map[string]int{}
	for _, k := range keys {
		dist[k] = w.dist[k]
	}
	meta := map[string]any{
		"evaluations":         w.total,
		"distinct":            w.distinct,
		"distinct_nontrivial": w.nontriv,
		"rule":                w.Rule,
		"samples":             w.samples,
		"distribution":        dist,
		"origins":             w.origins,
		"shards":              w.shard,
		"shard_offsets":       w.offsets,
		"seed":                w.cfg.Seed,
		"tier":                w.cfg.Tier,
		"crashes":             w.crashes,
	}
	for k, v := range w.Extra {
		meta[k] = v
	}
	b, _ := json.MarshalIndent(meta, "", " ")
	if err := os.WriteFile(filepath.Join(w.cfg.Out, "meta.json"), b, 0o644); err != nil {
		panic(err)
	}
}

// ---- Coq term helpers ----

// NatList prints a list of small non-negative ints as a Coq nat list.
func NatList(xs []int) string {
	var sb strings.Builder
	sb.WriteByte('[')
	for i, x := range xs {
		if i > 0 {
			sb.WriteByte(';')
		}
		fmt.Fprintf(&sb, "%d", x)
	}
	sb.WriteByte(']')
	return sb.String()
}

// Bytes prints a byte slice as a Coq nat list.
func Bytes(b []byte) string {
	xs := make([]int, len(b))
	for i, v := range b {
		xs[i] = int(v)
	}
	return NatList(xs)
}

// List joins already-printed Coq terms into a list.
func List(items []string) string {
	return "[" + strings.Join(items, "; ") + "]"
}

// LoadCorpus returns the JSON "case" values stored in the corpus directory
// (every *.json file: either a replay file with a "case" field or a bare case).
func LoadCorpus(dir string) []json.RawMessage {
	var out []json.RawMessage
	if dir == "" {
		return out
	}
	files, _ := filepath.Glob(filepath.Join(dir, "*.json"))
	sort.Strings(files)
	for _, f := range files {
		b, err := os.ReadFile(f)
		if err != nil {
			continue
		}
		var wrapper struct {
			Case json.RawMessage `json:"case"`
		}
		if json.Unmarshal(b, &wrapper) == nil && len(wrapper.Case) > 0 {
			out = append(out, wrapper.Case)
		} else {
			out = append(out, json.RawMessage(b))
		}
	}
	return out
}
