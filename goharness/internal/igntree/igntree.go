// Package igntree is shared by the ignore harnesses (C14, C15): abstract
// filesystem trees, their materialisation in a temporary directory, real
// core.Scan runs over them, and rendering as Coq terms of Model/IgnoreScan.v.
package igntree

import (
	"context"
	"crypto/sha1"
	"encoding/hex"
	"fmt"
	"math/rand"
	"os"
	"path/filepath"
	"sort"
	"strings"
	"syscall"

	"github.com/mutagen-io/mutagen/pkg/filesystem/behavior"
	"github.com/mutagen-io/mutagen/pkg/synchronization/core"
	"github.com/mutagen-io/mutagen/pkg/synchronization/core/ignore"

	"verifharness/internal/coretree"
)

// Node is a filesystem node (also the replay form).
type Node struct {
	K string           `json:"k"`           // dir file link other bad (bad: a file whose on-disk name is the key followed by the byte 0xff, i.e. not valid UTF-8)
	D string           `json:"d,omitempty"` // file content / link target
	C map[string]*Node `json:"c,omitempty"` // children
}

// Names is the alphabet of entry names used by the generators.
var Names = []string{"a", "b", "c", "ab", "bc", "a.b", ".git", ".hg", "_darcs", "a-c"}

// Random generates a random directory tree.
func Random(r *rand.Rand, depth, width int, names []string) *Node {
	n := &Node{K: "dir", C: map[string]*Node{}}
	k := r.Intn(width + 1)
	if depth >= 3 && k == 0 {
		k = 1
	}
	for i := 0; i < k; i++ {
		name := names[r.Intn(len(names))]
		if _, dup := n.C[name]; dup {
			continue
		}
		switch x := r.Intn(10); {
		case x < 4 && depth > 1:
			n.C[name] = Random(r, depth-1, width, names)
		case x < 8:
			n.C[name] = &Node{K: "file", D: fmt.Sprintf("content-%d", r.Intn(1000))}
		case x < 9:
			if r.Intn(3) == 0 {
				n.C[name] = &Node{K: "bad"}
			} else {
				n.C[name] = &Node{K: "link", D: "target"}
			}
		default:
			if depth > 1 && r.Intn(2) == 0 {
				n.C[name] = &Node{K: "dir", C: map[string]*Node{}}
			} else {
				n.C[name] = &Node{K: "other"}
			}
		}
	}
	return n
}

// SortedNames returns the children names in byte order.
func (n *Node) SortedNames() []string {
	names := make([]string, 0, len(n.C))
	for k := range n.C {
		names = append(names, k)
	}
	sort.Strings(names)
	return names
}

// BadSuffix is appended to the key of a "bad" node to form its on-disk name.
const BadSuffix = "\xff"

// SnapshotName is the name under which core.Scan lists the child: the key
// itself, or for a "bad" node the escaped form of its non-UTF-8 name
// (strings.ToValidUTF8(name, U+FFFD) + " (non-UTF-8)").
func (n *Node) SnapshotName(key string) string {
	if n.C[key].K == "bad" {
		return strings.ToValidUTF8(key+BadSuffix, "\uFFFD") + " (non-UTF-8)"
	}
	return key
}

// Digest is the digest core.Scan computes for a file with this content
// (SHA-1), hex-encoded. Digests travel to Coq in hex (see HexDigests): the
// encoding is injective, and printable strings are far cheaper for Coq to
// parse than byte lists.
func Digest(content string) string {
	h := sha1.Sum([]byte(content))
	return hex.EncodeToString(h[:])
}

// HexDigests returns a deep copy of the entry in which every file digest is
// replaced by its hex encoding.
func HexDigests(e *core.Entry) *core.Entry {
	if e == nil {
		return nil
	}
	c := e.Copy(core.EntryCopyBehaviorShallow)
	if c.Kind == core.EntryKind_File {
		c.Digest = []byte(hex.EncodeToString(e.Digest))
	}
	if len(e.Contents) > 0 {
		c.Contents = make(map[string]*core.Entry, len(e.Contents))
		for n, ch := range e.Contents {
			c.Contents[n] = HexDigests(ch)
		}
	}
	return c
}

// Coq renders the node as an fnode term.
func (n *Node) Coq() string {
	switch n.K {
	case "dir":
		type kv struct{ name, term string }
		var kvs []kv
		for _, key := range n.SortedNames() {
			kvs = append(kvs, kv{n.SnapshotName(key), n.C[key].Coq()})
		}
		sort.Slice(kvs, func(i, j int) bool { return kvs[i].name < kvs[j].name })
		items := make([]string, len(kvs))
		for i, x := range kvs {
			items[i] = "(" + coretree.Str(x.name) + ", " + x.term + ")"
		}
		return "FDir [" + strings.Join(items, "; ") + "]"
	case "file":
		return "FFile " + coretree.Str(Digest(n.D))
	case "link":
		return "FLink " + coretree.Str(n.D)
	case "bad":
		return "FBadName"
	default:
		return "FOther"
	}
}

// Paths lists every path below the node (root excluded) with its node, parents
// first.
func (n *Node) Paths() (paths []string, nodes []*Node) {
	var walk func(prefix string, x *Node)
	walk = func(prefix string, x *Node) {
		for _, name := range x.SortedNames() {
			if x.C[name].K == "bad" {
				continue // never offered to an ignorer
			}
			p := name
			if prefix != "" {
				p = prefix + "/" + name
			}
			paths = append(paths, p)
			nodes = append(nodes, x.C[name])
			if x.C[name].K == "dir" {
				walk(p, x.C[name])
			}
		}
	}
	walk("", n)
	return
}

// Size counts the nodes below the root.
func (n *Node) Size() int {
	p, _ := n.Paths()
	return len(p)
}

// Materialize creates the tree inside a fresh temporary directory and returns
// the root path.
func (n *Node) Materialize() (string, error) {
	root, err := os.MkdirTemp("", "verif-ign-")
	if err != nil {
		return "", err
	}
	var build func(dir string, x *Node) error
	build = func(dir string, x *Node) error {
		for name, ch := range x.C {
			p := filepath.Join(dir, name)
			var err error
			switch ch.K {
			case "dir":
				if err = os.Mkdir(p, 0o755); err == nil {
					err = build(p, ch)
				}
			case "file":
				err = os.WriteFile(p, []byte(ch.D), 0o644)
			case "link":
				err = os.Symlink(ch.D, p)
			case "bad":
				err = os.WriteFile(p+BadSuffix, []byte("x"), 0o644)
			default:
				err = syscall.Mkfifo(p, 0o644)
			}
			if err != nil {
				return err
			}
		}
		return nil
	}
	if err := build(root, n); err != nil {
		os.RemoveAll(root)
		return "", err
	}
	return root, nil
}

// Consult is one evaluation of Ignorer.Ignore recorded in the ignore cache
// that core.Scan returns.
type Consult struct {
	Path string
	Dir  bool
}

// Scan runs the real core.Scan (cold, no baseline, no caches) and returns the
// snapshot content and the set of (path, directory) pairs the ignorer was
// consulted on (the keys of the returned ignore cache), sorted.
func Scan(root string, ignorer ignore.Ignorer) (*core.Entry, []Consult, error) {
	snapshot, _, ignoreCache, err := core.Scan(
		context.Background(), root, nil, nil, sha1.New(), nil, ignorer, nil,
		behavior.ProbeMode_ProbeModeAssume,
		core.SymbolicLinkMode_SymbolicLinkModePortable,
		core.PermissionsMode_PermissionsModePortable,
	)
	if err != nil {
		return nil, nil, err
	}
	consulted := make([]Consult, 0, len(ignoreCache))
	for k := range ignoreCache {
		consulted = append(consulted, Consult{k.Path, k.Directory})
	}
	sort.Slice(consulted, func(i, j int) bool {
		if consulted[i].Path != consulted[j].Path {
			return consulted[i].Path < consulted[j].Path
		}
		return !consulted[i].Dir && consulted[j].Dir
	})
	return snapshot.Content, consulted, nil
}

// ConsultsCoq renders the consult set as a Coq list of (string * bool).
func ConsultsCoq(cs []Consult) string {
	items := make([]string, len(cs))
	for i, c := range cs {
		items[i] = "(" + coretree.Str(c.Path) + ", " + Bool(c.Dir) + ")"
	}
	return "[" + strings.Join(items, "; ") + "]"
}

// Bool renders a Go bool as a Coq bool.
func Bool(b bool) string {
	if b {
		return "true"
	}
	return "false"
}

// Strs renders a string slice as a Coq list of strings.
func Strs(ss []string) string {
	items := make([]string, len(ss))
	for i, s := range ss {
		items[i] = coretree.Str(s)
	}
	return "[" + strings.Join(items, "; ") + "]"
}

// Status renders an ignore status as the Coq constructor.
func Status(s ignore.IgnoreStatus) string {
	switch s {
	case ignore.IgnoreStatusNominal:
		return "Nominal"
	case ignore.IgnoreStatusIgnored:
		return "Ignored"
	case ignore.IgnoreStatusUnignored:
		return "Unignored"
	}
	return fmt.Sprintf("UnknownStatus%d", int(s))
}

// ---------- the C03 scan premise (Harness/ScanIgnoredH.v) ----------

// C03Header is the Coq preamble of the case files of the "-prop C03" modes.
const C03Header = "From Coq Require Import List Bool Arith String Ascii.\nImport ListNotations.\nFrom Mv Require Import Common.Bytes Model.Entry Model.IgnoreScan Model.ScanIgnored Harness.ScanIgnoredH.\nOpen Scope string_scope.\nOpen Scope list_scope."

// C03Rule describes the cases of the "-prop C03" modes.
const C03Rule = "a case = core.Scan of a real temporary tree with a real ignorer, together with the table of that ignorer's answers (status, continuation) for every path of the tree; distinct = distinct Coq terms; non-trivial = the ignorer ignores some directory but asks the walk to continue into it, or explicitly re-includes some path"

// C03Case scans the tree with the given real ignorer and renders the case:
// tree, the ignorer's answer for every path of the tree, snapshot.
func C03Case(tree *Node, ig ignore.Ignorer) (coq string, nontrivial bool, tags []string) {
	root, err := tree.Materialize()
	if err != nil {
		panic(err)
	}
	defer os.RemoveAll(root)
	snap, _, err := Scan(root, ig)
	if err != nil {
		panic(err)
	}
	paths, nodes := tree.Paths()
	rows := make([]string, 0, len(paths))
	ignoredDirs, reincluded := 0, 0
	for i, p := range paths {
		dir := nodes[i].K == "dir"
		st, cont := ig.Ignore(p, dir)
		rows = append(rows, fmt.Sprintf("(%s, %s, %s, %s)", coretree.Str(p), Bool(dir), Status(st), Bool(cont)))
		if st == ignore.IgnoreStatusIgnored && cont {
			ignoredDirs++
		}
		if st == ignore.IgnoreStatusUnignored {
			reincluded++
		}
	}
	nontrivial = ignoredDirs > 0 || reincluded > 0
	tags = append(tags, fmt.Sprintf("traversed-ignored-dirs:%d", min(ignoredDirs, 3)),
		fmt.Sprintf("reincluded-paths:%d", min(reincluded, 3)), fmt.Sprintf("tree-nodes:%d", tree.Size()/5*5))
	coq = fmt.Sprintf("S3 (%s) [%s] %s", tree.Coq(), strings.Join(rows, "; "), coretree.Entry(HexDigests(snap)))
	return
}
