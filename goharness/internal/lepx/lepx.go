// Package lepx holds what the local-endpoint harnesses (C41 localep, C10
// staging, C42 watchpoll) share: a scratch area with its own Mutagen data
// directory, construction of real local endpoints, an independent walk of a
// root, and the table that renames contents/digests to short identifiers.
package lepx

import (
	"crypto/sha1"
	"fmt"
	"os"
	"path/filepath"
	"sort"
	"strings"
	"sync"

	"github.com/mutagen-io/mutagen/pkg/filesystem"
	"github.com/mutagen-io/mutagen/pkg/logging"
	"github.com/mutagen-io/mutagen/pkg/synchronization"
	"github.com/mutagen-io/mutagen/pkg/synchronization/core"
	"github.com/mutagen-io/mutagen/pkg/synchronization/endpoint/local"
)

// Scratch is a temporary area holding the Mutagen data directory and the
// roots of all cases of one harness run.
type Scratch struct {
	Base string
}

// NewScratch creates the scratch area (on tmpfs when available, so that the
// timing of filesystem operations does not depend on what else the machine's
// disk is doing) and points MUTAGEN_DATA_DIRECTORY into it.
func NewScratch() *Scratch {
	if os.Getenv("VERIF_TMPDIR") != "" {
		os.Setenv("TMPDIR", os.Getenv("VERIF_TMPDIR"))
	} else if st, err := os.Stat("/dev/shm"); err == nil && st.IsDir() {
		if f, err := os.CreateTemp("/dev/shm", "verif-probe"); err == nil {
			f.Close()
			os.Remove(f.Name())
			os.Setenv("TMPDIR", "/dev/shm")
		}
	}
	base, err := os.MkdirTemp("", "verif-")
	if err != nil {
		panic(err)
	}
	os.Setenv("MUTAGEN_DATA_DIRECTORY", filepath.Join(base, "data"))
	return &Scratch{Base: base}
}

// Remove deletes the scratch area.
func (s *Scratch) Remove() { os.RemoveAll(s.Base) }

// Dir creates and returns a fresh directory inside the scratch area.
func (s *Scratch) Dir(name string) string {
	d := filepath.Join(s.Base, name)
	if err := os.MkdirAll(d, 0o755); err != nil {
		panic(err)
	}
	return d
}

// NewEndpoint constructs a real local endpoint.
func NewEndpoint(logger *logging.Logger, root, session string, cfg *synchronization.Configuration, alpha bool) synchronization.Endpoint {
	ep, err := local.NewEndpoint(logger, root, session, synchronization.Version_Version1, cfg, alpha)
	if err != nil {
		panic(fmt.Sprintf("NewEndpoint: %v", err))
	}
	return ep
}

// Disk is what an independent walk of a root finds: the entry count as
// Entry.Count defines it (every directory including the root, every file)
// and the regular files with their contents.
type Disk struct {
	Count uint64
	Files map[string][]byte
}

// Walk reads a root independently of mutagen (os.ReadDir / os.ReadFile),
// skipping mutagen's temporary names exactly as a scan ignores them. A
// missing root has count 0.
func Walk(root string) Disk {
	d := Disk{Files: map[string][]byte{}}
	st, err := os.Lstat(root)
	if err != nil {
		return d
	}
	if !st.IsDir() {
		panic("root is not a directory")
	}
	var rec func(dir, rel string)
	rec = func(dir, rel string) {
		d.Count++
		ents, err := os.ReadDir(dir)
		if err != nil {
			panic(err)
		}
		for _, e := range ents {
			if strings.HasPrefix(e.Name(), filesystem.TemporaryNamePrefix) {
				continue
			}
			r := e.Name()
			if rel != "" {
				r = rel + "/" + e.Name()
			}
			if e.IsDir() {
				rec(filepath.Join(dir, e.Name()), r)
			} else if e.Type().IsRegular() {
				b, err := os.ReadFile(filepath.Join(dir, e.Name()))
				if err != nil {
					panic(err)
				}
				d.Files[r] = b
				d.Count++
			} else {
				panic("unexpected file type in harness root: " + r)
			}
		}
	}
	rec(root, "")
	return d
}

// Key is a canonical string for a disk state (used to recognise equal states).
func (d Disk) Key() string {
	var sb strings.Builder
	fmt.Fprintf(&sb, "%d", d.Count)
	for _, p := range d.Paths() {
		fmt.Fprintf(&sb, "|%s=%x", p, sha1.Sum(d.Files[p]))
	}
	return sb.String()
}

// Paths returns the file paths in sorted order.
func (d Disk) Paths() []string {
	ps := make([]string, 0, len(d.Files))
	for p := range d.Files {
		ps = append(ps, p)
	}
	sort.Strings(ps)
	return ps
}

// Sha1 returns the SHA-1 digest (mutagen's default hashing algorithm).
func Sha1(b []byte) []byte {
	h := sha1.Sum(b)
	return h[:]
}

// Ids renames digests to short printable identifiers, injectively: "c<n>" for
// the digest of a content the harness knows, "x<n>" for any other digest. The
// models use digests only through equality and emptiness, so the renaming
// preserves their behaviour. The empty digest stays empty.
type Ids struct {
	mu sync.Mutex
	m  map[string]string
	n  int
}

// NewIds creates an empty table.
func NewIds() *Ids { return &Ids{m: map[string]string{}} }

// Content returns the identifier of a content (through its SHA-1 digest).
func (t *Ids) Content(b []byte) string { return t.digest(Sha1(b), "c") }

// Digest returns the identifier of a digest.
func (t *Ids) Digest(d []byte) string {
	if len(d) == 0 {
		return ""
	}
	return t.digest(d, "x")
}

func (t *Ids) digest(d []byte, prefix string) string {
	t.mu.Lock()
	defer t.mu.Unlock()
	if id, ok := t.m[string(d)]; ok {
		return id
	}
	t.n++
	id := fmt.Sprintf("%s%d", prefix, t.n)
	t.m[string(d)] = id
	return id
}

// RenameEntry returns a deep copy of an entry with every digest renamed.
func (t *Ids) RenameEntry(e *core.Entry) *core.Entry {
	if e == nil {
		return nil
	}
	c := &core.Entry{Kind: e.Kind, Executable: e.Executable, Target: e.Target, Problem: e.Problem}
	if e.Kind == core.EntryKind_File {
		c.Digest = []byte(t.Digest(e.Digest))
	}
	if len(e.Contents) > 0 {
		c.Contents = make(map[string]*core.Entry, len(e.Contents))
		for n, ch := range e.Contents {
			c.Contents[n] = t.RenameEntry(ch)
		}
	}
	return c
}

// At returns the entry at a "/"-joined path inside a tree (nil if absent).
func At(e *core.Entry, p string) *core.Entry {
	if p == "" {
		return e
	}
	for _, c := range strings.Split(p, "/") {
		if e == nil || e.Kind != core.EntryKind_Directory {
			return nil
		}
		e = e.Contents[c]
	}
	return e
}
