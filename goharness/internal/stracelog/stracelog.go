// Package stracelog runs a command under strace (optionally with fault or
// crash injection) and parses the `strace -f -o file` log into records. It is
// shared by the harnesses that use strace as the fault injector (C27) and as
// the observer of the filesystem calls the real code issues (C17).
package stracelog

import (
	"bufio"
	"bytes"
	"fmt"
	"os"
	"os/exec"
	"regexp"
	"strconv"
	"strings"
	"syscall"
)

// Record is one system call of one thread. A thread that ends before strace
// has identified the call it is in is logged by strace as `???(`; such records
// have Name "???" and no arguments.
type Record struct {
	Pid  int
	Name string
	// Args are the top-level comma-separated arguments, verbatim.
	Args []string
	// Ret is the text after " = " up to the first space ("0", "-1", "7", "?");
	// empty if the call never returned (the thread died inside it).
	Ret string
	// Errno is the symbolic error ("EIO") when Ret is -1.
	Errno string
	// Injected is set when strace marked the result as injected.
	Injected bool
	// Line is the 1-based log line where the call started.
	Line int
}

// Failed reports whether the call returned an error.
func (r *Record) Failed() bool { return strings.HasPrefix(r.Ret, "-") }

// Died reports whether the call did not return (process killed inside it).
func (r *Record) Died() bool { return r.Ret == "" || r.Ret == "?" }

// Exit is how a thread ended.
type Exit struct {
	Pid    int
	Code   int    // exit status when Signal == ""
	Signal string // "SIGKILL" ...
}

// Log is a parsed strace output.
type Log struct {
	Records []Record
	Exits   []Exit
	// FirstPid is the pid of the traced command itself (first line).
	FirstPid int
	// Unparsed are lines the parser did not understand (reported, not dropped
	// silently, so a harness can refuse to conclude from a log it cannot read).
	Unparsed []string
}

var (
	reHead       = regexp.MustCompile(`^(\d+)\s+(.*)$`)
	reExit       = regexp.MustCompile(`^\+\+\+ exited with (\d+) \+\+\+$`)
	reKilled     = regexp.MustCompile(`^\+\+\+ killed by (\w+)( \(core dumped\))? \+\+\+$`)
	reCall       = regexp.MustCompile(`^([a-zA-Z_][a-zA-Z0-9_]*|\?\?\?)\((.*)$`)
	reResumed    = regexp.MustCompile(`^<\.\.\. ([a-zA-Z_][a-zA-Z0-9_]*|\?\?\?) resumed>(.*)$`)
	unfinishedSx = " <unfinished ...>"
)

// Parse parses the content of a `strace -f -o` log.
func Parse(data []byte) *Log {
	l := &Log{}
	pending := map[int]*struct {
		name, text string
		line       int
	}{}
	sc := bufio.NewScanner(bytes.NewReader(data))
	sc.Buffer(make([]byte, 1<<20), 1<<26)
	n := 0
	for sc.Scan() {
		n++
		line := sc.Text()
		m := reHead.FindStringSubmatch(line)
		if m == nil {
			if strings.TrimSpace(line) != "" {
				l.Unparsed = append(l.Unparsed, line)
			}
			continue
		}
		pid, _ := strconv.Atoi(m[1])
		if l.FirstPid == 0 {
			l.FirstPid = pid
		}
		rest := m[2]
		switch {
		case strings.HasPrefix(rest, "+++"):
			if e := reExit.FindStringSubmatch(rest); e != nil {
				c, _ := strconv.Atoi(e[1])
				l.Exits = append(l.Exits, Exit{Pid: pid, Code: c})
			} else if k := reKilled.FindStringSubmatch(rest); k != nil {
				l.Exits = append(l.Exits, Exit{Pid: pid, Signal: k[1]})
			} else {
				l.Unparsed = append(l.Unparsed, line)
			}
			// a call the thread never returned from
			if p := pending[pid]; p != nil {
				l.add(pid, p.name, p.text, "", p.line)
				delete(pending, pid)
			}
		case strings.HasPrefix(rest, "---"):
			// signal delivery: not a call
		case strings.HasPrefix(rest, "<..."):
			r := reResumed.FindStringSubmatch(rest)
			p := pending[pid]
			if r == nil || p == nil || p.name != r[1] {
				l.Unparsed = append(l.Unparsed, line)
				continue
			}
			delete(pending, pid)
			full := p.text + r[2]
			if strings.HasSuffix(full, unfinishedSx) { // resumed and suspended again
				pending[pid] = &struct {
					name, text string
					line       int
				}{p.name, strings.TrimSuffix(full, unfinishedSx), p.line}
				continue
			}
			l.addFull(pid, p.name, full, p.line)
		default:
			c := reCall.FindStringSubmatch(rest)
			if c == nil {
				l.Unparsed = append(l.Unparsed, line)
				continue
			}
			if strings.HasSuffix(c[2], unfinishedSx) {
				pending[pid] = &struct {
					name, text string
					line       int
				}{c[1], strings.TrimSuffix(c[2], unfinishedSx), n}
				continue
			}
			l.addFull(pid, c[1], c[2], n)
		}
	}
	for pid, p := range pending {
		l.add(pid, p.name, p.text, "", p.line)
	}
	return l
}

// addFull splits "args) = ret ..." into arguments and result.
func (l *Log) addFull(pid int, name, text string, line int) {
	// the result separator is the LAST ") = " that is outside quotes
	idx, end := lastResultSeparator(text)
	if idx < 0 {
		l.Unparsed = append(l.Unparsed, fmt.Sprintf("%d %s(%s", pid, name, text))
		return
	}
	l.add(pid, name, text[:idx], strings.TrimSpace(text[end:]), line)
}

func (l *Log) add(pid int, name, args, result string, line int) {
	r := Record{Pid: pid, Name: name, Args: SplitArgs(args), Line: line}
	if result != "" {
		f := strings.Fields(result)
		r.Ret = f[0]
		if r.Ret == "-1" && len(f) > 1 {
			r.Errno = f[1]
		}
		r.Injected = strings.Contains(result, "(INJECTED)")
	}
	l.Records = append(l.Records, r)
}

// lastResultSeparator finds the last `)<spaces>= ` outside quotes: the index
// of the parenthesis and the index where the result text starts.
func lastResultSeparator(s string) (int, int) {
	inq := false
	last, end := -1, -1
	for i := 0; i < len(s); i++ {
		c := s[i]
		if inq {
			if c == '\\' {
				i++
			} else if c == '"' {
				inq = false
			}
			continue
		}
		if c == '"' {
			inq = true
			continue
		}
		if c == ')' {
			j := i + 1
			for j < len(s) && s[j] == ' ' {
				j++
			}
			if j > i+1 && strings.HasPrefix(s[j:], "= ") {
				last, end = i, j+2
			}
		}
	}
	return last, end
}

// SplitArgs splits an argument list at top-level commas (outside quotes,
// braces, brackets and parentheses).
func SplitArgs(s string) []string {
	var out []string
	depth, inq, start := 0, false, 0
	for i := 0; i < len(s); i++ {
		c := s[i]
		if inq {
			if c == '\\' {
				i++
			} else if c == '"' {
				inq = false
			}
			continue
		}
		switch c {
		case '"':
			inq = true
		case '{', '[', '(':
			depth++
		case '}', ']', ')':
			depth--
		case ',':
			if depth == 0 {
				out = append(out, strings.TrimSpace(s[start:i]))
				start = i + 1
			}
		}
	}
	if t := strings.TrimSpace(s[start:]); t != "" || len(out) > 0 {
		out = append(out, t)
	}
	return out
}

// Unquote decodes a strace string argument ("..." with C escapes, possibly
// followed by "..." when abbreviated). ok is false if arg is not a complete
// quoted string.
func Unquote(arg string) (s string, ok bool) {
	if len(arg) < 2 || arg[0] != '"' {
		return "", false
	}
	var b []byte
	i := 1
	for i < len(arg) {
		c := arg[i]
		if c == '"' {
			return string(b), i == len(arg)-1
		}
		if c != '\\' {
			b = append(b, c)
			i++
			continue
		}
		i++
		if i >= len(arg) {
			return "", false
		}
		switch e := arg[i]; e {
		case 'n':
			b = append(b, '\n')
		case 't':
			b = append(b, '\t')
		case 'r':
			b = append(b, '\r')
		case 'v':
			b = append(b, '\v')
		case 'f':
			b = append(b, '\f')
		case 'x':
			j := i + 1
			for j < len(arg) && j < i+3 && isHex(arg[j]) {
				j++
			}
			v, _ := strconv.ParseUint(arg[i+1:j], 16, 8)
			b = append(b, byte(v))
			i = j - 1
		case '0', '1', '2', '3', '4', '5', '6', '7':
			j := i
			for j < len(arg) && j < i+3 && arg[j] >= '0' && arg[j] <= '7' {
				j++
			}
			v, _ := strconv.ParseUint(arg[i:j], 8, 16)
			b = append(b, byte(v))
			i = j - 1
		default:
			b = append(b, e)
		}
		i++
	}
	return "", false
}

func isHex(c byte) bool {
	return c >= '0' && c <= '9' || c >= 'a' && c <= 'f' || c >= 'A' && c <= 'F'
}

// Result is the outcome of one traced run.
type Result struct {
	Log *Log
	// ExitCode is the command's exit status; Signaled is set (and Signal
	// names it) when the command was killed by a signal.
	ExitCode int
	Signaled bool
	Signal   syscall.Signal
	Stderr   string
}

// Run executes argv under `strace -f -o <log>` with the given extra strace
// options (e.g. "-e", "trace=openat,write", "-e", "inject=write:error=EIO:when=3")
// and returns the parsed log. logPath is created and removed by the caller.
func Run(logPath string, straceOpts []string, argv []string, env []string) (*Result, error) {
	args := append([]string{"-f", "-o", logPath}, straceOpts...)
	args = append(args, argv...)
	cmd := exec.Command("strace", args...)
	cmd.Env = env
	var stderr bytes.Buffer
	cmd.Stderr = &stderr
	err := cmd.Run()
	res := &Result{Stderr: stderr.String()}
	if err != nil {
		ee, ok := err.(*exec.ExitError)
		if !ok {
			return nil, fmt.Errorf("strace did not run: %w", err)
		}
		ws := ee.Sys().(syscall.WaitStatus)
		if ws.Signaled() {
			res.Signaled, res.Signal = true, ws.Signal()
		} else {
			res.ExitCode = ws.ExitStatus()
		}
	}
	data, rerr := os.ReadFile(logPath)
	if rerr != nil {
		return nil, fmt.Errorf("no strace log (%v); stderr: %s", rerr, res.Stderr)
	}
	res.Log = Parse(data)
	return res, nil
}
