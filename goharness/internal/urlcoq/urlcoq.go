// Package urlcoq is shared by the url (C38) and argv (C36) harnesses: it
// renders url.URL values and parse results as Coq terms of Model/Url.v, keeps
// them in JSON replay files, controls the Docker environment variables seen
// by url.Parse, observes filesystem.Normalize, and generates URL strings and
// URL values from a grammar.
package urlcoq

import (
	"fmt"
	"math/rand"
	"os"
	"sort"
	"strings"

	"github.com/mutagen-io/mutagen/pkg/filesystem"
	"github.com/mutagen-io/mutagen/pkg/url"

	"verifharness/internal/bstr"
)

// ---------------------------------------------------------------- Coq terms

// Kind renders a URL kind.
func Kind(k url.Kind) string {
	if k == url.Kind_Forwarding {
		return "KFwd"
	}
	return "KSync"
}

func proto(p url.Protocol) string {
	switch p {
	case url.Protocol_Local:
		return "PLocal"
	case url.Protocol_SSH:
		return "PSSH"
	case url.Protocol_Docker:
		return "PDocker"
	}
	return fmt.Sprintf("PUnknown%d", int(p))
}

// KV renders an ordered key/value list.
func KV(l [][2]string) string {
	if len(l) == 0 {
		return "[]"
	}
	items := make([]string, len(l))
	for i, kv := range l {
		items[i] = "(" + bstr.B(kv[0]) + ", " + bstr.B(kv[1]) + ")"
	}
	return "[" + strings.Join(items, "; ") + "]"
}

func str(s string) string {
	if s == "" {
		return "E0"
	}
	return bstr.B(s)
}

// orderedMap lists a map in the order of names, then any other key sorted.
func orderedMap(m map[string]string, names []string) [][2]string {
	var out [][2]string
	seen := map[string]bool{}
	for _, n := range names {
		if v, ok := m[n]; ok {
			out = append(out, [2]string{n, v})
			seen[n] = true
		}
	}
	var rest []string
	for k := range m {
		if !seen[k] {
			rest = append(rest, k)
		}
	}
	sort.Strings(rest)
	for _, k := range rest {
		out = append(out, [2]string{k, m[k]})
	}
	return out
}

// ParameterNames is dockerParameterNames of pkg/url (unexported there).
var ParameterNames = []string{"config", "context", "host", "tls", "tlscacert", "tlscert", "tlskey", "tlsverify"}

// EnvList orders Docker environment variables as DockerEnvironmentVariables.
func EnvList(m map[string]string) [][2]string {
	return orderedMap(m, url.DockerEnvironmentVariables)
}

// ParamList orders URL parameters as dockerParameterNames.
func ParamList(m map[string]string) [][2]string {
	return orderedMap(m, ParameterNames)
}

// URL renders a URL value.
func URL(u *url.URL) string {
	return fmt.Sprintf("(U %s %s %s %s %d%%N %s %s %s)", Kind(u.Kind), proto(u.Protocol), str(u.User), str(u.Host),
		u.Port, str(u.Path), KV(EnvList(u.Environment)), KV(ParamList(u.Parameters)))
}

// ErrName maps an error of url.Parse to the constructor of Model/Url.v perr.
func ErrName(err error) string {
	m := err.Error()
	switch {
	case m == "empty URL":
		return "EEmptyURL"
	case m == "empty username specified":
		return "EEmptyUser"
	case m == "empty hostname":
		return "EEmptyHost"
	case m == "no hostname present":
		return "ENoHost"
	case m == "invalid port value specified":
		return "EInvalidPort"
	case m == "empty path":
		return "EEmptyPath"
	case strings.HasPrefix(m, "invalid forwarding endpoint URL"):
		return "EInvalidFwd"
	case m == "empty container name":
		return "EEmptyContainer"
	case strings.HasPrefix(m, "unable to normalize"):
		return "ENormalize"
	case strings.Contains(m, "begins with '-'"):
		return "EDash"
	}
	// unknown to the model: evaluation of the case fails on the Coq side
	return "EUnknownMessage"
}

// Result renders the result of url.Parse.
func Result(u *url.URL, err error) string {
	if err != nil {
		return "(Er " + ErrName(err) + ")"
	}
	return "(Ok " + URL(u) + ")"
}

// FailFn selects the Coq failure function for the repairs the implementation
// under test is expected to contain ("" = none, "38", "36", "36,38"/"all"/"1");
// the environment variable VERIF_FIXED overrides an empty flag.
func FailFn(base, fixed string) string {
	if fixed == "" {
		fixed = os.Getenv("VERIF_FIXED")
	}
	f36 := strings.Contains(fixed, "36") || fixed == "all" || fixed == "1"
	f38 := strings.Contains(fixed, "38") || fixed == "all" || fixed == "1"
	switch {
	case f36 && f38:
		return base + "_3638"
	case f36:
		return base + "_36"
	case f38:
		return base + "_38"
	}
	return base
}

// ---------------------------------------------------------------- environment

// SetDockerEnv makes exactly the given Docker variables visible to url.Parse
// (all endpoint-specific variants are cleared) and returns a restore function.
func SetDockerEnv(env map[string]string) func() {
	type saved struct {
		name  string
		value string
		set   bool
	}
	var old []saved
	prefixes := []string{"", "MUTAGEN_ALPHA_", "MUTAGEN_BETA_", "MUTAGEN_SOURCE_", "MUTAGEN_DESTINATION_"}
	for _, v := range url.DockerEnvironmentVariables {
		for _, p := range prefixes {
			name := p + v
			value, set := os.LookupEnv(name)
			old = append(old, saved{name, value, set})
			os.Unsetenv(name)
		}
	}
	for k, v := range env {
		os.Setenv(k, v)
	}
	return func() {
		for k := range env {
			os.Unsetenv(k)
		}
		for _, s := range old {
			if s.set {
				os.Setenv(s.name, s.value)
			}
		}
	}
}

// NormalizeOracle observes filesystem.Normalize on every string the parser
// can hand to it for this input (the raw string, the address of a forwarding
// endpoint, and the results themselves, for idempotence), as a Coq list of
// (input, option output).
func NormalizeOracle(raw string, parsed *url.URL, err error) string {
	// Normalize is only reached for local URLs: parsed as local, or failed in
	// normalization. (If the model wrongly takes the local branch elsewhere
	// the oracle answers None and the results differ.)
	if !(parsed != nil && parsed.Protocol == url.Protocol_Local) && !(err != nil && ErrName(err) == "ENormalize") {
		return "[]"
	}
	seen := map[string]bool{}
	var items []string
	var visit func(s string, depth int)
	visit = func(s string, depth int) {
		if seen[s] || depth > 2 {
			return
		}
		seen[s] = true
		n, err := filesystem.Normalize(s)
		if err != nil {
			items = append(items, "("+bstr.B(s)+", None)")
			return
		}
		items = append(items, "("+bstr.B(s)+", Some "+bstr.B(n)+")")
		visit(n, depth+1)
	}
	visit(raw, 0)
	if i := strings.IndexByte(raw, ':'); i >= 0 {
		visit(raw[i+1:], 0)
	}
	return "[" + strings.Join(items, "; ") + "]"
}

// LocalOracle is the oracle NormalizeOracle prints for a raw string without
// ':' whose normalization is n (and n is a fixed point).
func LocalOracle(raw, n string) string {
	if raw == n {
		return "[(" + bstr.B(n) + ", Some " + bstr.B(n) + ")]"
	}
	return "[(" + bstr.B(raw) + ", Some " + bstr.B(n) + "); (" + bstr.B(n) + ", Some " + bstr.B(n) + ")]"
}

// ---------------------------------------------------------------- replay form

// JURL is the JSON form of a URL value.
type JURL struct {
	Kind   int         `json:"kind"`  // 0 synchronization, 1 forwarding
	Proto  int         `json:"proto"` // 0 local, 1 ssh, 11 docker (as in url.proto)
	User   bstr.JStr   `json:"user"`
	Host   bstr.JStr   `json:"host"`
	Port   uint32      `json:"port"`
	Path   bstr.JStr   `json:"path"`
	Env    [][2]string `json:"env,omitempty"`
	Params [][2]string `json:"params,omitempty"`
}

// ToURL converts.
func (j *JURL) ToURL() *url.URL {
	u := &url.URL{Kind: url.Kind(j.Kind), Protocol: url.Protocol(j.Proto), User: j.User.Get(), Host: j.Host.Get(),
		Port: j.Port, Path: j.Path.Get()}
	if len(j.Env) > 0 {
		u.Environment = map[string]string{}
		for _, kv := range j.Env {
			u.Environment[kv[0]] = kv[1]
		}
	}
	if len(j.Params) > 0 {
		u.Parameters = map[string]string{}
		for _, kv := range j.Params {
			u.Parameters[kv[0]] = kv[1]
		}
	}
	return u
}

// ---------------------------------------------------------------- generators

// Gen generates URL strings and values.
type Gen struct{ r *rand.Rand }

// NewGen creates a generator.
func NewGen(r *rand.Rand) *Gen { return &Gen{r} }

func (g *Gen) pick(xs []string) string { return xs[g.r.Intn(len(xs))] }

var users = []string{"", "", "user", "u", "-luser", "-oProxyCommand=x", "-", "--", "a b", "us:er", "us/er", "u@v", "\xff\xfe", "ü", "root", "0", "a-b"}
var hosts = []string{"host", "h", "example.com", "10.0.0.1", "[::1]", "-oProxyCommand=x", "-host", "-", "--", "ho st", "docker", "DOCKER", "tcp", "unix", "c", "C", "h\xffx", "", "0", "22", "a@b", "-i", "h-x"}
var ports = []string{"", "", "", "0", "00", "000", "1", "22", "022", "65535", "65536", "99999", "99999999999999999999", "2a", "-1", "+22", " 22", "٢٢"}
var syncPaths = []string{"path", "/abs/path", "~", "~/x", "~user/x", "C:\\x", "C:/x", "c:\\", "z:/a b", "22:foo", "0:x", ":x", "", "a:b", "rel/p", "/", "//x/y", "~C:/x", "-rf", "p\xffq", "ü/x", "1", "22"}
var fwdPaths = []string{"tcp:localhost:80", "tcp::3992", "tcp4:h:1", "tcp6:[::1]:3992", "unix:/some/socket.sock", "unix:rel.sock", "unix:~/s.sock", "npipe:\\\\.\\pipe\\n", "tcp:", "invalid:x", "tcp", "", "udp:h:1", "unix:", "TCP:h:1", "tcp:-x"}
var dockerPrefixes = []string{"docker://", "docker://", "docker://", "DOCKER://", "Docker://", "doc\u212Aer://", "dOcKeR://", "docker:/", "docker:///", "docker:"}
var envValues = []string{"", "tcp://1.2.3.4:2376", "unix:///var/run/docker.sock", "1", "ctx", "-x"}

func (g *Gen) mutate(s string) string {
	if s == "" || g.r.Intn(8) != 0 {
		return s
	}
	b := []byte(s)
	p := g.r.Intn(len(b))
	special := "@:/-~0\\ \xff"
	switch g.r.Intn(3) {
	case 0:
		b = append(b[:p], b[p+1:]...)
	case 1:
		b = append(b[:p], append([]byte{special[g.r.Intn(len(special))]}, b[p:]...)...)
	case 2:
		b[p] = special[g.r.Intn(len(special))]
	}
	return string(b)
}

// RawURL generates one raw URL string with its kind (0/1) and the Docker
// environment to set while parsing it.
func (g *Gen) RawURL() (string, int, map[string]string) {
	kind := g.r.Intn(2)
	path := g.pick(syncPaths)
	if kind == 1 {
		path = g.pick(fwdPaths)
	}
	var env map[string]string
	var raw string
	switch g.r.Intn(10) {
	case 0, 1, 2, 3, 4: // SCP-style SSH
		raw = g.pick(hosts) + ":"
		if u := g.pick(users); u != "" || g.r.Intn(20) == 0 {
			raw = u + "@" + raw
		}
		if p := g.pick(ports); p != "" || g.r.Intn(20) == 0 {
			raw += p + ":"
		}
		raw += path
	case 5, 6, 7: // Docker
		raw = g.pick(dockerPrefixes)
		if u := g.pick(users); u != "" || g.r.Intn(10) == 0 {
			raw += u + "@"
		}
		raw += g.pick(hosts)
		if kind == 0 {
			switch {
			case strings.HasPrefix(path, "/"):
				raw += path
			default:
				raw += "/" + path
			}
		} else {
			raw += ":" + path
		}
		if g.r.Intn(3) == 0 {
			env = map[string]string{}
			for _, v := range url.DockerEnvironmentVariables {
				if g.r.Intn(4) == 0 {
					env[v] = g.pick(envValues)
				}
			}
		}
	default: // local
		raw = path
		if g.r.Intn(4) == 0 {
			raw = g.pick([]string{"./x", "../y", "a/../b", "/a//b/./c/", "~nosuchuser-verif/x", "x y", ".", "/"})
		}
	}
	return g.mutate(raw), kind, env
}

// URLValue generates an arbitrary URL value (valid or not).
func (g *Gen) URLValue() *JURL {
	protos := []int{0, 1, 11}
	j := &JURL{Kind: g.r.Intn(2), Proto: protos[g.r.Intn(3)]}
	if g.r.Intn(3) != 0 || j.Proto != 0 {
		j.Host = bstr.J(g.pick(hosts))
	}
	if g.r.Intn(2) == 0 && (j.Proto != 0 || g.r.Intn(4) == 0) {
		j.User = bstr.J(g.pick(users))
	}
	switch g.r.Intn(6) {
	case 0:
		j.Port = uint32(g.r.Intn(70000))
	case 1:
		j.Port = []uint32{1, 22, 65535, 65536, 4294967295}[g.r.Intn(5)]
	}
	if j.Proto == 0 && g.r.Intn(3) != 0 {
		j.Port = 0
	}
	if j.Kind == 0 {
		j.Path = bstr.J(g.pick(syncPaths))
	} else {
		j.Path = bstr.J(g.pick(fwdPaths))
	}
	if g.r.Intn(5) == 0 {
		j.Env = [][2]string{{"DOCKER_HOST", g.pick(envValues)}}
	}
	if g.r.Intn(6) == 0 {
		j.Params = [][2]string{{g.pick(ParameterNames), g.pick([]string{"", "v", "-v"})}}
	}
	return j
}
