#!/usr/bin/env python3
"""Regenerate /verif/MANIFEST.json from props/*.json (one file per claimed property)."""
import glob, json, os, re
V = os.path.dirname(os.path.dirname(os.path.abspath(__file__)))
ids = [json.loads(l)["id"] for l in open(os.path.join(V, "properties.jsonl"))]
props = {}
for f in glob.glob(os.path.join(V, "props", "C*.json")):
    d = json.load(open(f))
    # a property is claimed only once the lead has seen its check pass on /repo
    if d.get("ready"):
        props[d["id"]] = d
na = {}
nap = os.path.join(V, "props", "not_applicable.json")
if os.path.exists(nap):
    na = json.load(open(nap))
checks = []
for pid in ids:
    if pid not in props:
        continue
    d = props[pid]
    m = d.get("manifest", {})
    checks.append({
        "property_id": pid,
        "quick_cmd": "./check %s quick" % pid,
        "thorough_cmd": "./check %s thorough" % pid,
        "evidence_file": "evidence/%s.json" % pid,
        "replay_cmd_template": "./check %s --replay {path}" % pid,
        "engine": "coq-model+correspondence",
        "level_claimed": {
            "category": d.get("level", "proof"),
            "text": m.get("level_text", ""),
            "design_ref": m.get("design_ref", "DESIGN.md §8 " + pid),
        },
        "level_note": m.get("level_note", "; ".join(d.get("trusted_base", []) + d.get("assumptions", []))),
        "technique": m.get("technique", "machine-checked proof in Coq about an executable model + differential correspondence check against the Go code"),
    })
not_app = [{"property_id": pid, "reason": na.get(pid, "not yet built: model, theorems and correspondence harness for this property are planned (DESIGN.md §8) but no check is registered yet")}
           for pid in ids if pid not in props]
hooks_commits = []
hp = os.path.join(V, "props", "hooks.json")
if os.path.exists(hp):
    hooks_commits = json.load(open(hp)).get("source_commits", [])
man = {
    "version": 1,
    "setup_cmd": "./setup.sh",
    "hooks": {
        "guard": "verif",
        "enable": "go build -tags verif (harness module goharness/ uses `replace github.com/mutagen-io/mutagen => /repo`)",
        "baseline_off_cmd": "cd /repo && GOFLAGS=-mod=mod GOPROXY=off go test -json -vet=off -count=1 -timeout 25m ./...",
        "source_commits": hooks_commits,
        "add_only": True,
    },
    "engines": [{
        "name": "coq-model+correspondence",
        "path": "check",
        "serves_properties": [c["property_id"] for c in checks],
        "kind_free_text": "Coq 8.16.1 theorems (coq/Props/Cxx.v) about executable Gallina models (coq/Model), models tied to /repo's working tree on every run by a translator (coq/Gen, gotools/gotables) and/or by running the Go code and the model on the same cases (goharness/, evaluated in Coq with vm_compute)",
    }],
    "checks": checks,
    "notes": "See DESIGN.md. Every check rebuilds its harness from /repo's working tree and re-checks the Coq closure of its property.",
    "not_applicable": not_app,
}
json.dump(man, open(os.path.join(V, "MANIFEST.json"), "w"), indent=1)
print("checks:", len(checks), "not claimed:", len(not_app))
