#!/bin/sh
# usage: lib/runall.sh <outfile> <tier> Cxx Cyy ...   (sequential; one summary line per property)
out=$1; tier=$2; shift 2
cd "$(dirname "$0")/.."
for p in "$@"; do
  s=$(date +%s)
  r=$(./check $p $tier 2>&1 | grep -E '^(HOLDS|VIOLATION|KNOWN-FINDING)' | tr '\n' '|')
  echo "$p exit=$? $(( $(date +%s) - s ))s $r" >> $out
done
echo done >> $out
