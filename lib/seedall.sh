#!/bin/sh
# usage: lib/seedall.sh <outfile> seeded/X seeded/Y ...
out=$1; shift
cd "$(dirname "$0")/.."
for d in "$@"; do
  r=$(python3 lib/seedrun.py $d 2>&1 | python3 -c "
import sys,json
t=sys.stdin.read()
try:
    j=json.loads(t[t.index('{'):])
    print(j.get('demo_on_pristine'),'|',j.get('builds'),'|',j.get('existing_tests_pass'),'|',j.get('demo_on_patched'),'| detected=',j.get('detected'),'failing_input=',j.get('with_failing_input'),'wall=',j.get('check_wall_s'))
except Exception as e:
    print('ERR',t[-300:].replace('\n',' '))
")
  echo "$d $r" >> $out
done
echo done >> $out
