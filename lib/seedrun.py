#!/usr/bin/env python3
"""Confirm a seeded change and run the property's check against it.

usage: lib/seedrun.py seeded/<id> [--tier quick|thorough] [--no-confirm]

seeded/<id>/ holds patch.diff, a demonstration (demo_test.go or demo/), and meta.json with at
least {"property": "Cxx", "demo_pkg": "pkg/...", "demo_run": "TestName"}.

Steps (all in a scratch worktree under /tmp, removed afterwards):
  1. pristine tree: demonstration passes
  2. apply patch.diff: `go build ./...` succeeds, the touched packages' own tests pass,
     the demonstration FAILS
  3. VERIF_REPO=<worktree> ./check Cxx  -> expect exit 1 with a VIOLATION line
The outcome is written to seeded/<id>/result.json.
"""
import json
import os
import shutil
import subprocess
import sys
import time

V = os.path.dirname(os.path.dirname(os.path.abspath(__file__)))
ENV = dict(os.environ, GOFLAGS="-mod=mod", GOPROXY="off")
ENV.pop("GOTOOLCHAIN", None)
ENV.pop("GOSUMDB", None)


def sh(cmd, cwd=None, env=None, timeout=3600):
    p = subprocess.run(cmd, cwd=cwd, env=env or ENV, shell=True, stdout=subprocess.PIPE,
                       stderr=subprocess.STDOUT, text=True, timeout=timeout)
    return p.returncode, p.stdout


def main():
    d = os.path.abspath(sys.argv[1])
    tier = "quick"
    confirm = True
    prop_override = None
    args = sys.argv[2:]
    while args:
        a = args.pop(0)
        if a == "--tier":
            tier = args.pop(0)
        elif a == "--no-confirm":
            confirm = False
        elif a == "--property":
            prop_override = args.pop(0)
    meta = json.load(open(os.path.join(d, "meta.json")))
    pid = prop_override or meta["property"]
    pkg = meta.get("demo_pkg")
    wt = "/tmp/wt-seed-%s-%d" % (os.path.basename(d), os.getpid())
    res = {"property": pid, "tier": tier, "at": time.strftime("%Y-%m-%dT%H:%M:%SZ", time.gmtime())}
    sh("git -C /repo worktree add -q --detach %s" % wt)
    try:
        demo_files = []
        if pkg:
            for f in os.listdir(d):
                if f.endswith("_test.go"):
                    demo_files.append(f)
        def put_demo():
            for f in demo_files:
                shutil.copy(os.path.join(d, f), os.path.join(wt, pkg, "zz_seed_" + f))
        def rm_demo():
            for f in demo_files:
                try:
                    os.remove(os.path.join(wt, pkg, "zz_seed_" + f))
                except OSError:
                    pass
        run = meta.get("demo_run", "")
        demo_cmd = "go test -count=1 -vet=off %s ./%s" % (("-run '%s'" % run) if run else "", pkg) if pkg else meta.get("demo_cmd", "true")
        if confirm:
            put_demo()
            rc, out = sh(demo_cmd, cwd=wt)
            res["demo_on_pristine"] = "pass" if rc == 0 else "FAIL"
            res["demo_on_pristine_tail"] = out[-400:]
            rm_demo()
        rc, out = sh("git apply %s" % os.path.join(d, "patch.diff"), cwd=wt)
        res["patch_applies"] = rc == 0
        if rc != 0:
            res["patch_error"] = out[-600:]
        if confirm and rc == 0:
            rc, out = sh("go build ./...", cwd=wt)
            res["builds"] = rc == 0
            rc2, out2 = sh("git diff --name-only", cwd=wt)
            pkgs = sorted({"./" + os.path.dirname(f) for f in out2.split() if f.endswith(".go")})
            res["touched_packages"] = pkgs
            def failing(tree):
                rc, out = sh("go test -count=1 -vet=off %s" % " ".join(pkgs), cwd=tree) if pkgs else (0, "")
                return {l.split()[2] for l in out.splitlines() if l.startswith("--- FAIL:")} | \
                       {"BUILD:" + l for l in out.splitlines() if "[build failed]" in l}
            # pre-existing failures (root-only permission tests etc.) are measured on a pristine copy
            pristine = wt + "-pristine"
            sh("git -C /repo worktree add -q --detach %s" % pristine)
            try:
                base_fail = failing(pristine)
            finally:
                sh("git -C /repo worktree remove --force %s" % pristine)
            new_fail = failing(wt) - base_fail
            res["preexisting_failures"] = sorted(base_fail)
            res["new_failures"] = sorted(new_fail)
            res["existing_tests_pass"] = not new_fail
            put_demo()
            rc, out = sh(demo_cmd, cwd=wt)
            res["demo_on_patched"] = "fails (as required)" if rc != 0 else "PASSES (change not confirmed)"
            res["demo_on_patched_tail"] = out[-400:]
            rm_demo()
        t0 = time.time()
        env = dict(ENV, VERIF_REPO=wt)
        rc, out = sh("./check %s %s" % (pid, tier), cwd=V, env=env, timeout=7200)
        res["check_exit"] = rc
        res["check_wall_s"] = round(time.time() - t0, 1)
        lines = [l for l in out.splitlines() if l.startswith(("VIOLATION", "KNOWN-FINDING", "HOLDS"))]
        res["check_lines"] = lines
        res["detected"] = rc == 1 and any(l.startswith("VIOLATION") for l in lines)
        res["with_failing_input"] = res["detected"] and not any("no-failing-input-found" in l for l in lines)
        for l in lines:
            if l.startswith("VIOLATION") and "replay=" in l:
                rp = l.split("replay=")[1].split()[0]
                try:
                    shutil.copy(os.path.join(V, rp), os.path.join(d, "replay.json"))
                except OSError:
                    pass
                break
    finally:
        sh("git -C /repo worktree remove --force %s" % wt)
        shutil.rmtree(wt, ignore_errors=True)
    json.dump(res, open(os.path.join(d, "result.json" if not prop_override else "result-%s.json" % pid), "w"), indent=1)
    print(json.dumps({k: res[k] for k in res if not k.endswith("_tail")}, indent=1))
    return 0 if res.get("detected") else 1


if __name__ == "__main__":
    sys.exit(main())
