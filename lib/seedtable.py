#!/usr/bin/env python3
"""Write docs/SEEDED.md: one row per seeded change with what it needs and whether the check catches it."""
import glob, json, os
V = os.path.dirname(os.path.dirname(os.path.abspath(__file__)))
rows = []
for d in sorted(glob.glob(os.path.join(V, "seeded", "C*"))):
    try:
        m = json.load(open(os.path.join(d, "meta.json")))
    except OSError:
        continue
    r = {}
    if os.path.exists(os.path.join(d, "result.json")):
        r = json.load(open(os.path.join(d, "result.json")))
    extra = []
    for f in sorted(glob.glob(os.path.join(d, "result-*.json"))):
        x = json.load(open(f))
        extra.append("%s: %s" % (x.get("property"), "caught" if x.get("detected") else "missed"))
    confirmed = (r.get("demo_on_pristine") == "pass" and r.get("builds") and r.get("existing_tests_pass")
                 and str(r.get("demo_on_patched", "")).startswith("fails"))
    status = "not run"
    if r:
        status = ("caught, failing input" if r.get("with_failing_input") else
                  "caught (no-failing-input-found)" if r.get("detected") else "MISSED")
    rows.append((os.path.basename(d), m.get("property"), (m.get("summary") or "").replace("|", "/").replace("\n", " ")[:260],
                 (m.get("needs") or "").replace("|", "/").replace("\n", " ")[:220], "yes" if confirmed else "no", status, "; ".join(extra)))
with open(os.path.join(V, "docs", "SEEDED.md"), "w") as f:
    f.write("# Seeded breaking changes and what the checks report\n\n")
    f.write("Each change was written by an independent sub-agent that saw only the property text and a scratch worktree;\n"
            "`lib/seedrun.py seeded/<id>` confirms it (demo passes on the pristine tree, the change builds, adds no test failure,\n"
            "the demo fails with it) and runs `VERIF_REPO=<worktree> ./check <property>`. `result.json` in each directory holds the last run.\n\n")
    caught = sum(1 for r in rows if r[5].startswith("caught"))
    f.write("Total: %d changes, %d caught (%d with a concrete failing input), %d missed.\n\n" % (
        len(rows), caught, sum(1 for r in rows if r[5] == "caught, failing input"), sum(1 for r in rows if r[5] == "MISSED")))
    f.write("| id | property | change | needs | confirmed | last result | other checks |\n|---|---|---|---|---|---|---|\n")
    for r in rows:
        f.write("| %s | %s | %s | %s | %s | %s | %s |\n" % r)
print("rows", len(rows))
