#!/usr/bin/env python3
"""Driver behind /verif/check.

One run for property Cxx:
  1. regenerate coq/Gen/*.v from /repo (translator gotables), if the property uses it
  2. build the Coq closure of Props/Cxx.v (full .vo build, shared lock)
  3. obligation accounting, Print Assumptions capture, forbidden-word gate
  4. build the Go harness against /repo's working tree (tag verif) and run it
  5. evaluate the emitted cases inside Coq (vm_compute), in parallel shards
  6. verdict (HOLDS / KNOWN-FINDING / VIOLATION ...) and evidence/Cxx.json

Verdict bits per case (computed by the Coq function named in the harness):
  1 = hand-written model disagrees with the implementation (correspondence)
  2 = the implementation's output fails the property checker (failing input)
  4 = the case lies in a known-finding class (see known-findings.txt)
"""
import glob
import json
import os
import re
import shutil
import subprocess
import sys
import time

VERIF = os.path.dirname(os.path.dirname(os.path.abspath(__file__)))
COQ = os.path.join(VERIF, "coq")
GOH = os.path.join(VERIF, "goharness")
WORK = os.path.join(VERIF, ".work")
REPO = os.environ.get("VERIF_REPO", "/repo")
LOCK = os.path.join(VERIF, ".coq.lock")

GOENV = dict(os.environ, GOFLAGS="-mod=mod", GOPROXY="off")
GOENV.pop("GOTOOLCHAIN", None)
GOENV.pop("GOSUMDB", None)

FORBIDDEN = re.compile(
    r"\bAdmitted\b|\badmit\b|\bAxiom\b|\bAxioms\b|\bParameter\b|\bParameters\b|\bConjecture\b"
    r"|Unset\s+Guard|bypass_check|type-in-type|impredicative-set|Admit\s+Obligations"
    r"|native_compute|Unset\s+Universe\s+Checking|Unset\s+Positivity")
OBLIGATION = re.compile(
    r"^\s*(?:Local\s+|Global\s+|#\[[^\]]*\]\s*)*(Theorem|Lemma|Example|Corollary|Fact|Remark|Proposition)\s+([A-Za-z0-9_']+)",
    re.M)


def log(*a):
    print(*a, file=sys.stderr, flush=True)


def sh(cmd, cwd=None, env=None, timeout=None, capture=True):
    p = subprocess.run(cmd, cwd=cwd, env=env, timeout=timeout, shell=isinstance(cmd, str),
                       stdout=subprocess.PIPE if capture else None,
                       stderr=subprocess.STDOUT if capture else None, text=True)
    return p.returncode, (p.stdout or "")


def load_prop(pid):
    path = os.path.join(VERIF, "props", pid + ".json")
    if not os.path.exists(path):
        log("no such property registered:", pid)
        sys.exit(2)
    with open(path) as f:
        return json.load(f)


def strip_comments(src):
    out, depth, i = [], 0, 0
    while i < len(src):
        if src.startswith("(*", i):
            depth += 1
            i += 2
        elif src.startswith("*)", i) and depth > 0:
            depth -= 1
            i += 2
        else:
            if depth == 0:
                out.append(src[i])
            i += 1
    return "".join(out)


# ---------------------------------------------------------------- go side

def modfile_path():
    # one module file per repository location, so that checks run against a
    # scratch worktree (VERIF_REPO=...) never disturb checks run against /repo
    tag = re.sub(r"[^A-Za-z0-9]+", "_", REPO).strip("_") or "root"
    d = os.path.join(WORK, "gomod", tag)
    os.makedirs(d, exist_ok=True)
    return os.path.join(d, "go.mod")


def prepare_go_module():
    """The harness module's go.mod mirrors REPO/go.mod's requirements on every run."""
    with open(os.path.join(REPO, "go.mod")) as f:
        repo_mod = f.read()
    goline = re.search(r"^go\s+\S+", repo_mod, re.M).group(0)
    reqs = re.findall(r"^require\s*\((.*?)^\)", repo_mod, re.M | re.S)
    single = re.findall(r"^require\s+([^\s(]+\s+\S+)", repo_mod, re.M)
    lines = ["module verifharness", "", goline, "", "require (",
             "\tgithub.com/mutagen-io/mutagen v0.0.0"]
    for blk in reqs:
        for l in blk.strip().splitlines():
            if l.strip():
                lines.append("\t" + l.strip())
    for s in single:
        lines.append("\t" + s)
    lines += [")", "", "replace github.com/mutagen-io/mutagen => " + REPO, ""]
    for m in re.findall(r"^replace\s+(.*)$", repo_mod, re.M):
        lines.append("replace " + m)
    new = "\n".join(lines) + "\n"
    path = modfile_path()
    old = open(path).read() if os.path.exists(path) else ""
    if old != new:
        with open(path, "w") as f:
            f.write(new)
    shutil.copyfile(os.path.join(REPO, "go.sum"), path[:-3] + "sum")
    # goharness/go.mod (used by editors and `go vet`) points at /repo
    if REPO == "/repo":
        gm = os.path.join(GOH, "go.mod")
        if not os.path.exists(gm) or open(gm).read() != new:
            with open(gm, "w") as f:
                f.write(new)
        shutil.copyfile(os.path.join(REPO, "go.sum"), os.path.join(GOH, "go.sum"))


def build_harness(cmd):
    tag = os.path.basename(os.path.dirname(modfile_path()))
    os.makedirs(os.path.join(WORK, "bin", tag), exist_ok=True)
    out = os.path.join(WORK, "bin", tag, cmd)
    rc, o = sh(["go", "build", "-modfile", modfile_path(), "-tags", "verif", "-o", out, "./cmd/" + cmd],
               cwd=GOH, env=GOENV, timeout=1800)
    return rc, o, out


# ---------------------------------------------------------------- coq side

def regen_coqproject():
    sh(["./regen.sh"], cwd=COQ)


def coq_closure(target_v):
    """Transitive closure (within Mv) of a .v file, via coqdep."""
    seen, todo = set(), [target_v]
    while todo:
        v = todo.pop()
        if v in seen or not os.path.exists(os.path.join(COQ, v)):
            continue
        seen.add(v)
        rc, o = sh(["coqdep", "-Q", ".", "Mv", v], cwd=COQ)
        m = re.search(r"\.vo[^:]*:\s*(.*)", o)
        if m:
            for dep in m.group(1).split():
                if dep.endswith(".vo") and not dep.startswith("/"):
                    todo.append(dep[:-1])
    return sorted(seen)


def count_obligations(files):
    names = []
    for v in files:
        src = strip_comments(open(os.path.join(COQ, v)).read())
        for m in OBLIGATION.finditer(src):
            names.append((v, m.group(2)))
    return names


def gate(files):
    bad = []
    for v in files:
        src = strip_comments(open(os.path.join(COQ, v)).read())
        for m in FORBIDDEN.finditer(src):
            line = src.count("\n", 0, m.start()) + 1
            bad.append("%s:%d: %s" % (v, line, m.group(0)))
    return bad


def make_targets(targets, jobs=16, timeout=3000):
    cmd = ["flock", LOCK, "sh", "-c", "./regen.sh && exec timeout %d make -j%d %s" % (timeout, jobs, " ".join(targets))]
    return sh(cmd, cwd=COQ, timeout=timeout + 1800)


def parse_assumptions(out):
    """Split coqc output of a Props file into per-theorem assumption lists."""
    res = []
    # Each Print Assumptions prints either 'Closed under the global context'
    # or 'Axioms:' followed by 'name : type' entries.
    blocks = re.split(r"(?=Closed under the global context|^Axioms:|^Section Variables:)", out, flags=re.M)
    for b in blocks:
        if b.startswith("Closed under the global context"):
            res.append([])
        elif b.startswith("Axioms:") or b.startswith("Section Variables:"):
            names = re.findall(r"^([A-Za-z_][A-Za-z0-9_.']*)\s*:", b[b.index(":") + 1:], re.M)
            res.append(names)
    return res


def eval_shards(outdir, jobs=16, timeout=3000):
    # at most three evaluation phases at a time per machine (8 coqc each):
    # concurrent checks queue here instead of oversubscribing the cores
    import fcntl
    while True:
        for slot in range(3):
            lk = open(os.path.join(VERIF, ".eval.lock.%d" % slot), "w")
            try:
                fcntl.flock(lk, fcntl.LOCK_EX | fcntl.LOCK_NB)
            except OSError:
                lk.close()
                continue
            try:
                # alone on the machine: use all cores
                return _eval_shards(outdir, jobs if slot == 0 and _alone() else 8, timeout)
            finally:
                lk.close()
        time.sleep(0.5)


def _alone():
    import fcntl
    for slot in (1, 2):
        try:
            with open(os.path.join(VERIF, ".eval.lock.%d" % slot), "w") as lk:
                fcntl.flock(lk, fcntl.LOCK_EX | fcntl.LOCK_NB)
        except OSError:
            return False
    return True


def _eval_shards(outdir, jobs=16, timeout=3000):
    shards = sorted(glob.glob(os.path.join(outdir, "cases_*.v")),
                    key=lambda p: int(re.search(r"cases_(\d+)\.v", p).group(1)))
    if not shards:
        return [], []
    procs, results, errors = [], {}, []
    pending = list(shards)
    running = []
    t0 = time.time()
    while pending or running:
        while pending and len(running) < jobs:
            s = pending.pop(0)
            p = subprocess.Popen(["timeout", str(timeout), "coqc", "-Q", COQ, "Mv", "-w", "-all", s],
                                 cwd=outdir, stdout=subprocess.PIPE, stderr=subprocess.STDOUT, text=True)
            running.append((s, p))
        still = []
        for s, p in running:
            if p.poll() is None:
                still.append((s, p))
            else:
                results[s] = (p.returncode, p.stdout.read())
        running = still
        if running:
            time.sleep(0.05)
    failures = []
    for s in shards:
        rc, out = results[s]
        k = int(re.search(r"cases_(\d+)\.v", s).group(1))
        m = re.search(r"M\s*=\s*(.*?)\n\s*:\s*list", out, re.S)
        if rc != 0 or not m:
            errors.append((k, out[-2000:]))
            continue
        body = re.sub(r"%[A-Za-z_]+", "", m.group(1))
        pairs = re.findall(r"\(\s*(\d+)\s*,\s*(\d+)\s*\)", body)
        if not pairs and re.sub(r"\s+", "", body) not in ("[]", "nil"):
            # a non-empty failure list we cannot read is never taken for "no failures"
            errors.append((k, "unparsable failure list: " + m.group(1)[:500]))
            continue
        for a, b in pairs:
            failures.append((k, int(a), int(b)))
    return failures, errors


# ---------------------------------------------------------------- findings

def load_known_findings():
    path = os.path.join(VERIF, "known-findings.txt")
    out = []
    if os.path.exists(path):
        for l in open(path):
            l = l.strip()
            if l.startswith("finding:"):
                kv = dict(re.findall(r"(\w+)=(\"[^\"]*\"|\S+)", l))
                kv["line"] = l
                m = re.search(r"what=(.*)$", l)
                kv["what"] = m.group(1) if m else l
                out.append(kv)
    return out


# ---------------------------------------------------------------- main

def run_one_harness(prop, h, tier, seed, outdir, replay=None, max_timeout=None):
    rc, o, binpath = build_harness(h["cmd"])
    if rc != 0:
        return None, "harness build failed:\n" + o[-3000:]
    shutil.rmtree(outdir, ignore_errors=True)
    os.makedirs(outdir)
    corpus = os.path.join(VERIF, "corpus", h.get("corpus", prop["id"]))
    cmd = [binpath, "-tier", tier, "-seed", str(seed), "-out", outdir, "-corpus", corpus] + h.get("args", [])
    if replay:
        cmd += ["-replay", replay]
    env = dict(GOENV, VERIF_REPO=REPO, VERIF_DIR=VERIF)
    tmo = h.get("timeout_s", 900 if tier == "quick" else 6000)
    if max_timeout:
        tmo = min(tmo, max_timeout)
    try:
        rc, o = sh(cmd, cwd=GOH, env=env, timeout=tmo)
    except subprocess.TimeoutExpired:
        return None, "harness run timed out"
    if rc != 0:
        return None, "harness run failed (exit %d):\n%s" % (rc, o[-3000:])
    with open(os.path.join(outdir, "meta.json")) as f:
        meta = json.load(f)
    meta["harness_stdout"] = o[-500:]
    return meta, None


def harness_list(prop):
    hs = []
    if prop.get("harness"):
        hs.append(prop["harness"])
    hs += prop.get("harnesses", [])
    return hs


def run_harness(prop, tier, seed, outdir, replay=None, max_timeout=None):
    """Run every harness registered for the property and merge their outputs
    (case shards, cases.jsonl, meta) into outdir. A replay file names the
    harness its case came from."""
    hs = harness_list(prop)
    if replay:
        try:
            k = int(json.load(open(replay)).get("harness_index", 0))
        except (OSError, ValueError):
            k = 0
        hs = [hs[k if k < len(hs) else 0]]
    if len(hs) == 1:
        meta, err = run_one_harness(prop, hs[0], tier, seed, outdir, replay, max_timeout)
        return meta, err
    shutil.rmtree(outdir, ignore_errors=True)
    os.makedirs(outdir)
    merged = {"evaluations": 0, "distinct": 0, "distinct_nontrivial": 0, "rule": [], "samples": [],
              "distribution": {}, "origins": {}, "shard_offsets": [], "crashes": [], "shards": 0,
              "harness_of_index": []}
    total, nshard = 0, 0
    with open(os.path.join(outdir, "cases.jsonl"), "w") as jl:
        for k, h in enumerate(hs):
            sub = os.path.join(outdir, "h%d" % k)
            meta, err = run_one_harness(prop, h, tier, seed, sub, None, max_timeout)
            if err:
                return None, "harness %s: %s" % (h["cmd"], err)
            offs = meta.get("shard_offsets", [])
            for n in range(meta.get("shards", len(offs))):
                src = os.path.join(sub, "cases_%d.v" % n)
                if os.path.exists(src):
                    shutil.move(src, os.path.join(outdir, "cases_%d.v" % nshard))
                    merged["shard_offsets"].append(total + (offs[n] if n < len(offs) else 0))
                    nshard += 1
            with open(os.path.join(sub, "cases.jsonl")) as f:
                for line in f:
                    rec = json.loads(line)
                    rec["harness_index"] = k
                    jl.write(json.dumps(rec) + "\n")
            n = meta.get("evaluations", 0)
            merged["harness_of_index"].append([total, total + n, h["cmd"]])
            total += n
            merged["evaluations"] += n
            merged["distinct"] += meta.get("distinct", 0)
            merged["distinct_nontrivial"] += meta.get("distinct_nontrivial", 0)
            merged["rule"].append("[%s] %s" % (h["cmd"], meta.get("rule", "")))
            merged["samples"] += (meta.get("samples") or [])[:3]
            for t, c in (meta.get("distribution") or {}).items():
                merged["distribution"]["%s/%s" % (h["cmd"], t)] = c
            for t, c in (meta.get("origins") or {}).items():
                merged["origins"]["%s/%s" % (h["cmd"], t)] = c
            for cr in (meta.get("crashes") or []):
                cr["harness_index"] = k
                merged["crashes"].append(cr)
            for key in ("exhaustive_scope", "traces_validated_against_impl", "faults_injected", "states", "transitions"):
                if key in meta:
                    if isinstance(meta[key], int) and not isinstance(meta[key], bool):
                        merged[key] = merged.get(key, 0) + meta[key]
                    else:
                        merged.setdefault(key, "")
                        merged[key] = ("%s; " % merged[key] if merged[key] else "") + "[%s] %s" % (h["cmd"], meta[key])
            shutil.rmtree(sub, ignore_errors=True)
    merged["shards"] = nshard
    merged["rule"] = " || ".join(merged["rule"])
    merged["seed"], merged["tier"] = seed, tier
    with open(os.path.join(outdir, "meta.json"), "w") as f:
        json.dump(merged, f)
    return merged, None


def case_by_index(outdir, idx):
    with open(os.path.join(outdir, "cases.jsonl")) as f:
        for n, line in enumerate(f):
            if n == idx:
                return json.loads(line)
    return None


def write_replay(pid, kind, payload):
    os.makedirs(os.path.join(VERIF, "replays"), exist_ok=True)
    name = "%s-%s-%d.json" % (pid, kind, int(time.time() * 1000) % 10**10)
    path = os.path.join(VERIF, "replays", name)
    payload = dict(payload, property=pid, kind=kind,
                   how_to_replay="./check %s --replay %s" % (pid, os.path.relpath(path, VERIF)))
    with open(path, "w") as f:
        json.dump(payload, f, indent=1)
    return os.path.relpath(path, VERIF)


def main(argv):
    if len(argv) < 2:
        log("usage: check <Cxx> [quick|thorough] [--replay file]")
        return 2
    pid = argv[1]
    tier = os.environ.get("VERIF_TIER", "quick")
    replay = None
    rest = argv[2:]
    while rest:
        a = rest.pop(0)
        if a in ("quick", "thorough"):
            tier = a
        elif a == "--replay":
            replay = os.path.abspath(rest.pop(0))
    try:
        seed = int(os.environ.get("VERIF_SEED", "1"))
    except ValueError:
        seed = 1
    prop = load_prop(pid)
    t0 = time.time()
    os.makedirs(WORK, exist_ok=True)
    rundir = os.path.join(WORK, "run-%s-%d" % (pid, os.getpid()))
    violations = []      # (replay_path, suffix)
    known_lines = []
    notes = []

    prepare_go_module()

    # 1. regenerate Gen/ from /repo
    tie_failures = []
    if prop.get("gen"):
        rc, o = sh([sys.executable, os.path.join(VERIF, "lib", "gen.py")] + prop["gen"], cwd=VERIF, env=GOENV, timeout=900)
        if rc != 0:
            tie_failures.append("translator: " + o[-2000:])

    # 2. build the closure
    prop_v = prop["prop_file"]
    targets = [prop_v + "o"] + [t for t in prop.get("coq_targets", [])]
    closure = coq_closure(prop_v)
    for t in prop.get("coq_targets", []):
        for v in coq_closure(t[:-1]):
            if v not in closure:
                closure.append(v)
    if tier == "thorough":
        # clean rebuild of the closure
        for v in closure:
            for ext in ("o", "os", "ok", "glob"):
                try:
                    os.remove(os.path.join(COQ, v[:-1] + ext if ext != "glob" else v[:-2] + ".glob"))
                except OSError:
                    pass
    tb = time.time()
    rc_make, make_out = make_targets(targets)
    build_s = time.time() - tb
    obligations = count_obligations(closure)
    built = [v for v in closure if os.path.exists(os.path.join(COQ, v + "o")) and
             os.path.getmtime(os.path.join(COQ, v + "o")) >= os.path.getmtime(os.path.join(COQ, v))]
    discharged = [o for o in obligations if o[0] in built]
    proof_broken = None
    if rc_make != 0:
        m = re.search(r'File "([^"]+)", line (\d+)[^\n]*\n(?:.*\n)*?Error:(.*?)(?:\n\n|\Z)', make_out, re.S)
        proof_broken = {"file": m.group(1) if m else "?", "line": int(m.group(2)) if m else 0,
                        "error": (m.group(3).strip()[:1500] if m else make_out[-1500:])}
        # name the theorem being proved at that line
        if m:
            try:
                src = open(os.path.join(COQ, m.group(1))).read().splitlines()
                for ln in range(int(m.group(2)) - 1, -1, -1):
                    mm = OBLIGATION.match(src[ln])
                    if mm:
                        proof_broken["theorem"] = mm.group(2)
                        break
            except OSError:
                pass

    # 3. assumptions + gate (re-run coqc on the Props file to capture output)
    assumptions = []
    axioms_seen = []
    if rc_make == 0:
        # the property file and any addendum files (Props/CxxDisk.v, HistoryTie.v, ...)
        prop_files = [prop_v] + [t[:-1] for t in prop.get("coq_targets", []) if t.startswith("Props/")] \
            + prop.get("extra_prop_files", [])
        rc, out, n_expected = 0, "", 0
        for pv in dict.fromkeys(prop_files):
            rc1, out1 = sh(["coqc", "-Q", ".", "Mv", pv], cwd=COQ, timeout=900)
            if rc1 != 0:
                rc, out = rc1, out1
                prop_v_failed = pv
                break
            out += out1
            n_expected += len(re.findall(r"^\s*Print Assumptions", open(os.path.join(COQ, pv)).read(), re.M))
        if rc != 0:
            proof_broken = {"file": prop_v_failed, "line": 0, "error": out[-1500:]}
        else:
            assumptions = parse_assumptions(out)
            if len(assumptions) != n_expected:
                notes.append("Print Assumptions blocks parsed: %d of %d" % (len(assumptions), n_expected))
            allowed = set(prop.get("allowed_axioms", []))
            for a in assumptions:
                for name in a:
                    axioms_seen.append(name)
                    if name not in allowed:
                        tie_failures.append("assumption not in allow-list: " + name)
    gate_hits = gate(closure)
    for g in gate_hits:
        tie_failures.append("forbidden construct: " + g)

    # thorough: coqchk on the property's closure
    coqchk = None
    if tier == "thorough" and rc_make == 0 and not replay and prop.get("coqchk", True):
        lib = "Mv." + prop_v[:-2].replace("/", ".")
        tc = time.time()
        rc, out = sh(["flock", LOCK, "timeout", "3000", "coqchk", "-silent", "-o", "-Q", ".", "Mv", lib], cwd=COQ, timeout=3600)
        coqchk = {"rc": rc, "wall_s": round(time.time() - tc, 1), "tail": out[-1500:]}
        if rc != 0:
            tie_failures.append("coqchk failed: " + out[-500:])

    # 4-5. harness + evaluation
    meta, herr = None, None
    failures, eval_errors = [], []
    if harness_list(prop):
        # the harness' Coq side depends on Model/ only; build it even if a proof broke
        if rc_make != 0:
            make_targets([t for t in prop.get("coq_targets", [])])
        meta, herr = run_harness(prop, tier, seed, rundir, replay)
        if herr:
            tie_failures.append(herr)
        else:
            te = time.time()
            failures, eval_errors = eval_shards(rundir)
            meta["eval_s"] = round(time.time() - te, 1)
            for k, e in eval_errors:
                tie_failures.append("Coq evaluation of shard %d failed: %s" % (k, e[-800:]))

    # 6. verdict
    known = [k for k in load_known_findings() if k.get("property") == pid]
    offsets = (meta or {}).get("shard_offsets", [])
    viol_cases, corr_cases, known_hits = [], [], {}
    for (k, i, v) in failures:
        idx = (offsets[k] if k < len(offsets) else 0) + i
        if v & 2:
            if v & 4 and known:
                cls = known[0].get("class", "?")
                known_hits.setdefault(cls, []).append(idx)
            else:
                viol_cases.append((idx, v))
        elif v & 1:
            corr_cases.append((idx, v))
        elif v & 4:
            pass
    # Timing-sensitive harnesses (trace validation of concurrent code): a small number of
    # failing cases is re-executed from its replay form before it is believed; a genuine
    # divergence or violation reproduces, a scheduling artefact of one run does not.
    unreproduced = 0
    if prop.get("confirm_by_replay") and not replay and 0 < len(viol_cases) + len(corr_cases) <= 8:
        def confirm(idx):
            rec = case_by_index(rundir, idx) or {}
            tmp = os.path.join(WORK, "confirm-%s-%d-%d.json" % (pid, os.getpid(), idx))
            with open(tmp, "w") as f:
                json.dump({"case": rec.get("case"), "harness_index": rec.get("harness_index", 0)}, f)
            cdir = rundir + "-confirm"
            try:
                m2, e2 = run_harness(prop, tier, seed, cdir, tmp)
                if e2:
                    return True  # cannot re-run: keep the original verdict
                if (m2.get("crashes") or []):
                    return True
                f2, ee2 = eval_shards(cdir)
                return bool(ee2) or any(v & 3 for (_, _, v) in f2)
            finally:
                shutil.rmtree(cdir, ignore_errors=True)
                try:
                    os.remove(tmp)
                except OSError:
                    pass
        kept_v, kept_c = [], []
        for idx, v in viol_cases:
            if confirm(idx):
                kept_v.append((idx, v))
            else:
                unreproduced += 1
        for idx, v in corr_cases:
            if confirm(idx):
                kept_c.append((idx, v))
            else:
                unreproduced += 1
        viol_cases, corr_cases = kept_v, kept_c
        if unreproduced:
            notes.append("%d failing case(s) of this run did not reproduce when re-executed from their replay form and were not counted" % unreproduced)

    for cls, idxs in known_hits.items():
        for kf in known:
            if kf.get("class") == cls:
                known_lines.append("KNOWN-FINDING: property=%s %s (%d cases in class %s this run)" % (pid, kf["what"], len(idxs), cls))

    crashes = (meta or {}).get("crashes") or []
    if crashes:
        cr = crashes[0]
        path = write_replay(pid, "failing-input", {
            "case": cr.get("case"), "crash": cr.get("kind"), "detail": cr.get("detail"),
            "harness_index": cr.get("harness_index", 0),
            "meaning": "the implementation panicked or did not return on this case (watchdog in the harness)",
            "seed": seed, "tier": tier, "crashes": len(crashes)})
        violations.append((path, ""))
    elif viol_cases:
        # report the smallest failing case of this run (cheap minimisation)
        best = None
        for idx, v in viol_cases[:300]:
            r = case_by_index(rundir, idx) or {}
            size = len(json.dumps(r.get("case")))
            if best is None or size < best[0]:
                best = (size, idx, v, r)
        _, idx, v, rec = best
        path = write_replay(pid, "failing-input", {
            "case": rec.get("case"), "origin": rec.get("origin"), "verdict_bits": v,
            "harness_index": rec.get("harness_index", 0),
            "meaning": prop.get("verdict_names", {}), "seed": seed, "tier": tier,
            "other_failing_indices": [i for i, _ in viol_cases[1:20]], "failing_cases": len(viol_cases)})
        violations.append((path, ""))
    elif corr_cases or proof_broken or tie_failures:
        # something broke without a failing input in this run: search harder
        found = None
        if harness_list(prop) and not replay and tier == "quick" and not herr:
            sdir = rundir + "-search"
            smeta, serr = run_harness(prop, "thorough", seed + 1000003, sdir, max_timeout=1200)
            if not serr:
                sf, se = eval_shards(sdir)
                soff = smeta.get("shard_offsets", [])
                for (k, i, v) in sf:
                    if v & 2 and not (v & 4):
                        idx = (soff[k] if k < len(soff) else 0) + i
                        found = (case_by_index(sdir, idx) or {}, v)
                        break
            shutil.rmtree(sdir, ignore_errors=True)
        if found:
            rec, v = found
            path = write_replay(pid, "failing-input", {
                "case": rec.get("case"), "origin": rec.get("origin"), "verdict_bits": v,
                "harness_index": rec.get("harness_index", 0),
                "meaning": prop.get("verdict_names", {}), "seed": seed + 1000003, "tier": "thorough",
                "found_by": "search after a broken obligation/correspondence",
                "broken_proof": proof_broken, "tie_failures": tie_failures[:5]})
            violations.append((path, ""))
        else:
            payload = {"broken_proof": proof_broken, "tie_failures": tie_failures[:10], "seed": seed, "tier": tier}
            if corr_cases:
                idx, v = corr_cases[0]
                rec = case_by_index(rundir, idx) or {}
                payload.update({"correspondence": "model output differs from implementation output; the implementation's output passes the property checker",
                                "case": rec.get("case"), "verdict_bits": v, "disagreeing_cases": len(corr_cases)})
            if proof_broken:
                payload["no_longer_checks"] = "theorem %s in %s (line %d)" % (proof_broken.get("theorem", "?"), proof_broken["file"], proof_broken["line"])
            path = write_replay(pid, "unproved", payload)
            violations.append((path, " no-failing-input-found"))

    # evidence
    wall = time.time() - t0
    cov = {
        "obligations": len(obligations),
        "discharged": len(discharged),
        "checker_cmd": "cd coq && make -j16 %s && coqc -Q . Mv %s  (Print Assumptions under every property theorem)%s" % (
            " ".join(targets), prop_v, "; coqchk -silent -o -Q . Mv" if coqchk else ""),
        "trusted_base": prop.get("trusted_base", []) + ["Coq 8.16.1 kernel + vm_compute", "axioms reported by Print Assumptions this run: %s" % (sorted(set(axioms_seen)) or "none (closed under the global context)")],
        "property_theorems": len(assumptions),
        "obligation_files": closure,
        "build_s": round(build_s, 1),
    }
    if meta:
        cov.update({
            "evaluations": meta.get("evaluations", 0),
            "distinct_nontrivial": meta.get("distinct_nontrivial", 0),
            "rule": meta.get("rule", ""),
            "samples": (meta.get("samples") or [])[:6],
            "distribution": meta.get("distribution", {}),
            "origins": meta.get("origins", {}),
            "model_vs_impl_disagreements": len(corr_cases) + sum(1 for _, v in viol_cases if v & 1),
            "checker_failures_on_impl": len(viol_cases) + len(crashes),
            "known_finding_cases": sum(len(v) for v in known_hits.values()),
            "eval_s": meta.get("eval_s"),
        })
        for k in ("exhaustive_scope", "exhaustive", "traces_validated_against_impl", "faults_injected", "states", "transitions"):
            if k in meta:
                cov[k] = meta[k]
        # keep the schema's types: free text goes to *_note keys
        if "exhaustive" in cov and not isinstance(cov["exhaustive"], bool):
            cov["exhaustive_scope"] = ("%s; " % cov["exhaustive_scope"] if cov.get("exhaustive_scope") else "") + str(cov.pop("exhaustive"))
        for k in ("traces_validated_against_impl", "states", "transitions"):
            if k in cov and (isinstance(cov[k], bool) or not isinstance(cov[k], int)):
                cov[k + "_note"] = str(cov.pop(k))
    if coqchk:
        cov["coqchk"] = coqchk
    if notes:
        cov["notes"] = notes
    ev = {
        "property_id": pid, "tier": tier, "seed": seed, "level": prop.get("level", "proof"),
        "coverage": cov, "assumptions": prop.get("assumptions", []),
        "wall_s": round(wall, 2), "violations": len(violations),
    }
    if not replay:
        # runs against a scratch copy of the repository never touch evidence/
        evdir = os.path.join(VERIF, "evidence") if REPO == "/repo" else os.path.join(WORK, "evidence-scratch")
        os.makedirs(evdir, exist_ok=True)
        with open(os.path.join(evdir, pid + ".json"), "w") as f:
            json.dump(ev, f, indent=1)
            f.write("\n")
    shutil.rmtree(rundir, ignore_errors=True)

    for l in known_lines:
        print(l)
    if violations:
        for path, suffix in violations:
            print("VIOLATION property=%s replay=%s%s" % (pid, path, suffix))
        return 1
    print("HOLDS property=%s tier=%s obligations=%d/%d cases=%d wall=%.1fs" % (
        pid, tier, len(discharged), len(obligations), (meta or {}).get("evaluations", 0), wall))
    return 0


if __name__ == "__main__":
    sys.exit(main(sys.argv))
