#!/bin/sh
# Build the framework from files on disk only (offline): full Coq tree, Go harnesses.
set -e
cd "$(dirname "$0")"
export GOFLAGS=-mod=mod GOPROXY=off
unset GOTOOLCHAIN GOSUMDB || true
mkdir -p .work/bin evidence replays
python3 - <<'PY'
import sys; sys.path.insert(0, 'lib')
import vcheck
vcheck.prepare_go_module()
PY
if [ -f lib/gen.py ]; then python3 lib/gen.py all; fi
(cd coq && ./regen.sh && (timeout 7000 make -k -j16 2>&1 | grep -v "^COQ" | tail -40) || true)
(cd goharness && go build -modfile ../.work/gomod/repo/go.mod -tags verif ./... )
echo setup done
